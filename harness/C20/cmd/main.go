//go:build verif

// C20 correspondence driver.  Runs the REAL ipamClient (libcalico-go/lib/ipam) sequentially against the
// in-memory compare-and-swap backend of C19 with generated pool layouts (block sizes /26../30, node and
// namespace selectors, allowedUses, disabled and manual pools), IP reservations (single addresses, parts of
// blocks, whole blocks, overlapping), IPAM configs (StrictAffinity, AutoAllocateBlocks, MaxBlocksPerHost)
// and histories of 30-50 AutoAssign / ReleaseIPs / ReleaseByHandle calls for different hosts, uses,
// namespaces, requested pools.  Prints, per case, a Coq `case` term: inputs, every returned result
// (addresses with their masks, error class), a summary of the datastore after every operation and the
// final datastore contents.
package main

import (
	"context"
	"encoding/json"
	"errors"
	"flag"
	"fmt"
	"net"
	"os"
	"sort"
	"strconv"
	"strings"

	v3 "github.com/projectcalico/api/pkg/apis/projectcalico/v3"
	"github.com/sirupsen/logrus"
	corev1 "k8s.io/api/core/v1"
	metav1 "k8s.io/apimachinery/pkg/apis/meta/v1"

	"github.com/projectcalico/calico/libcalico-go/lib/apis/internalapi"
	"github.com/projectcalico/calico/libcalico-go/lib/backend/model"
	"github.com/projectcalico/calico/libcalico-go/lib/clientv3"
	"github.com/projectcalico/calico/libcalico-go/lib/ipam"
	cnet "github.com/projectcalico/calico/libcalico-go/lib/net"
	"github.com/projectcalico/calico/libcalico-go/lib/options"
	mb "github.com/projectcalico/calico/zz_verif/c19/membackend"
)

type rng struct{ s uint64 }

func (r *rng) next() uint64 {
	r.s += 0x9e3779b97f4a7c15
	z := r.s
	z = (z ^ (z >> 30)) * 0xbf58476d1ce4e5b9
	z = (z ^ (z >> 27)) * 0x94d049bb133111eb
	return z ^ (z >> 31)
}
func (r *rng) intn(n int) int    { return int(r.next() % uint64(n)) }
func (r *rng) chance(p int) bool { return r.intn(100) < p }

// ---------------------------------------------------------------- fakes
// pool accessor as in ipam_test.go, but "enabled" is decided by the real clientv3 filter
type poolAcc struct{ pools []v3.IPPool }

func (p *poolAcc) GetEnabledPools(ctx context.Context, ipVersion int) ([]v3.IPPool, error) {
	var out []v3.IPPool
	for i := range p.pools {
		if clientv3.VerifFilterIPPool(&p.pools[i], ipVersion) {
			out = append(out, p.pools[i])
		}
	}
	return out, nil
}
func (p *poolAcc) GetAllPools(ctx context.Context) ([]v3.IPPool, error) { return p.pools, nil }

type resvAcc struct{ list v3.IPReservationList }

func (r *resvAcc) List(ctx context.Context, opts options.ListOptions) (*v3.IPReservationList, error) {
	return &r.list, nil
}

// backend wrapper that records the order in which blocks are read (Go map order of ReleaseByHandle)
type recStore struct {
	*mb.Store
	rec          bool
	gets         []uint32
	blockUpdates int
}

func (s *recStore) Update(ctx context.Context, d *model.KVPair) (*model.KVPair, error) {
	if _, ok := d.Key.(model.BlockKey); ok {
		s.blockUpdates++
	}
	return s.Store.Update(ctx, d)
}

func (s *recStore) Get(ctx context.Context, k model.Key, rev string) (*model.KVPair, error) {
	if bk, ok := k.(model.BlockKey); ok && s.rec {
		s.gets = append(s.gets, ipnum(bk.CIDR.Addr().AsSlice()))
	}
	return s.Store.Get(ctx, k, rev)
}

// ---------------------------------------------------------------- case description
type atom struct {
	kind int // 0 ==, 1 !=, 2 has, 3 !has
	k, v int
}

type poolD struct {
	base             uint32
	nblocks, bsize   int
	disabled, manual bool
	uses             []int // 0 workload 1 tunnel 2 lb
	nodesel, nssel   []atom
	starts           []int
}

type cfgD struct {
	pools             []poolD
	resv              [][2]uint32 // first, count
	strict, autoalloc bool
	maxblocks         int
	nodes             [][][2]int // labels per node
}

type opD struct {
	kind  string // aa | rel | rbh | relaff
	addr  uint32
	must  bool
	node  int
	use   int
	ns    [][2]int
	nsNil bool
	req   [][2]uint32
	maxb  int
	h     int
	tag   int
	num   int
	rel   []relOpt
	hint  []uint32
}
type relOpt struct {
	addr uint32
	h    int
}

type resD struct {
	kind string // ips | rel | err
	ips  [][2]uint32
	un   []uint32
	err  string
}

func ip4(a uint32) net.IP { return net.IPv4(byte(a>>24), byte(a>>16), byte(a>>8), byte(a)).To4() }
func ipnum(ip net.IP) uint32 {
	v := ip.To4()
	return uint32(v[0])<<24 | uint32(v[1])<<16 | uint32(v[2])<<8 | uint32(v[3])
}
func log2(n int) int {
	k := 0
	for 1<<uint(k) < n {
		k++
	}
	return k
}

func classifyErr(err error) string {
	if err == nil {
		return "ENone"
	}
	if errors.Is(err, ipam.ErrBlockLimit) {
		return "EBlockLimit"
	}
	return "EOther"
}

var useNames = []v3.IPPoolAllowedUse{v3.IPPoolAllowedUseWorkload, v3.IPPoolAllowedUseTunnel, v3.IPPoolAllowedUseLoadBalancer}
var useCoq = []string{"UWorkload", "UTunnel", "ULB"}

func selString(as []atom) string {
	var ss []string
	for _, a := range as {
		switch a.kind {
		case 0:
			ss = append(ss, fmt.Sprintf("k%d == 'v%d'", a.k, a.v))
		case 1:
			ss = append(ss, fmt.Sprintf("k%d != 'v%d'", a.k, a.v))
		case 2:
			ss = append(ss, fmt.Sprintf("has(k%d)", a.k))
		default:
			ss = append(ss, fmt.Sprintf("!has(k%d)", a.k))
		}
	}
	return strings.Join(ss, " && ")
}
func selCoq(as []atom) string {
	var ss []string
	for _, a := range as {
		switch a.kind {
		case 0:
			ss = append(ss, fmt.Sprintf("SEq %d%%N %d%%N", a.k, a.v))
		case 1:
			ss = append(ss, fmt.Sprintf("SNe %d%%N %d%%N", a.k, a.v))
		case 2:
			ss = append(ss, fmt.Sprintf("SHas %d%%N", a.k))
		default:
			ss = append(ss, fmt.Sprintf("SNotHas %d%%N", a.k))
		}
	}
	return "[" + strings.Join(ss, "; ") + "]"
}
func labCoq(l [][2]int) string {
	var ss []string
	for _, x := range l {
		ss = append(ss, fmt.Sprintf("(%d%%N, %d%%N)", x[0], x[1]))
	}
	return "[" + strings.Join(ss, "; ") + "]"
}
func labMap(l [][2]int) map[string]string {
	m := map[string]string{}
	for i := len(l) - 1; i >= 0; i-- { // first binding wins, as in the model's lab_get
		m[fmt.Sprintf("k%d", l[i][0])] = fmt.Sprintf("v%d", l[i][1])
	}
	return m
}
func pairs32Coq(l [][2]uint32) string {
	var ss []string
	for _, x := range l {
		ss = append(ss, fmt.Sprintf("(%d%%N, %d%%N)", x[0], x[1]))
	}
	return "[" + strings.Join(ss, "; ") + "]"
}

func (c *cfgD) coq() string {
	var ps []string
	for _, p := range c.pools {
		var us []string
		for _, u := range p.uses {
			us = append(us, useCoq[u])
		}
		var st []string
		for n, s := range p.starts {
			st = append(st, fmt.Sprintf("(%d%%N, %d%%nat)", n, s))
		}
		ps = append(ps, fmt.Sprintf("Build_pool %d%%N %d%%nat %d%%nat %v %v [%s] %s %s [%s]", p.base, p.nblocks, p.bsize,
			p.disabled, p.manual, strings.Join(us, "; "), selCoq(p.nodesel), selCoq(p.nssel), strings.Join(st, "; ")))
	}
	var ns []string
	for i, l := range c.nodes {
		ns = append(ns, fmt.Sprintf("(%d%%N, %s)", i, labCoq(l)))
	}
	return fmt.Sprintf("(Build_config [%s] %s %v %v %d%%nat %d%%nat [%s] %v %v)", strings.Join(ps, "; "), pairs32Coq(c.resv),
		c.strict, c.autoalloc, c.maxblocks, ipam.VerifDatastoreRetries, strings.Join(ns, "; "), claimBumps, capFixed)
}

func (o *opD) coq() string {
	switch o.kind {
	case "aa":
		return fmt.Sprintf("OpAutoAssign (Build_request %d%%N %s %s %s %d%%nat %d%%N %d%%N %d%%nat)", o.node, useCoq[o.use],
			labCoq(o.ns), pairs32Coq(o.req), o.maxb, o.h, o.tag, o.num)
	case "relaff":
		return fmt.Sprintf("OpReleaseAffinity %d%%N %d%%N %v", o.node, o.addr, o.must)
	case "rel":
		var ss []string
		for _, r := range o.rel {
			h := "None"
			if r.h != 0 {
				h = fmt.Sprintf("Some %d%%N", r.h)
			}
			ss = append(ss, fmt.Sprintf("(%d%%N, %s)", r.addr, h))
		}
		return fmt.Sprintf("OpRelease [%s]", strings.Join(ss, "; "))
	default:
		var hs []string
		for _, x := range o.hint {
			hs = append(hs, fmt.Sprintf("%d%%N", x))
		}
		return fmt.Sprintf("OpReleaseByHandle %d%%N [%s]", o.h, strings.Join(hs, "; "))
	}
}

func (o *opD) text() string {
	switch o.kind {
	case "aa":
		var rq []string
		for _, r := range o.req {
			rq = append(rq, fmt.Sprintf("%s/%d", ip4(r[0]), 32-log2(int(r[1]))))
		}
		return fmt.Sprintf("AutoAssign(node n%d, use %s, ns %v nil=%v, pools %v, maxBlocks %d, h%d, n=%d)", o.node, useNames[o.use],
			labMap(o.ns), o.nsNil, rq, o.maxb, o.h, o.num)
	case "relaff":
		return fmt.Sprintf("ReleaseAffinity(block %s, host n%d, mustBeEmpty=%v)", ip4(o.addr), o.node, o.must)
	case "rel":
		var ss []string
		for _, r := range o.rel {
			ss = append(ss, fmt.Sprintf("%s/h%d", ip4(r.addr), r.h))
		}
		return "ReleaseIPs(" + strings.Join(ss, ",") + ")"
	default:
		return fmt.Sprintf("ReleaseByHandle(h%d)", o.h)
	}
}

func (r *resD) coq() string {
	switch r.kind {
	case "ips":
		var ss []string
		for _, x := range r.ips {
			ss = append(ss, fmt.Sprintf("(%d%%N, %d%%nat)", x[0], x[1]))
		}
		return fmt.Sprintf("RIPs [%s] %s", strings.Join(ss, "; "), r.err)
	case "rel":
		var ss []string
		for _, x := range r.un {
			ss = append(ss, fmt.Sprintf("%d%%N", x))
		}
		return fmt.Sprintf("RRel [%s] %s", strings.Join(ss, "; "), r.err)
	}
	return "RErr " + r.err
}
func (r *resD) text() string {
	switch r.kind {
	case "ips":
		var ss []string
		for _, x := range r.ips {
			ss = append(ss, fmt.Sprintf("%s/%d", ip4(x[0]), x[1]))
		}
		return fmt.Sprintf("[%s] %s", strings.Join(ss, " "), r.err)
	case "rel":
		return fmt.Sprintf("unallocated %v %s", r.un, r.err)
	}
	return r.err
}

// ---------------------------------------------------------------- datastore printing
func hostNum(aff string) int {
	virt := strings.HasPrefix(aff, "virtual:")
	s := strings.TrimPrefix(strings.TrimPrefix(aff, "virtual:"), "host:")
	n, _ := strconv.Atoi(strings.TrimPrefix(s, "n"))
	if virt {
		return 2*n + 1
	}
	return 2 * n
}
func handleNum(h string) int { n, _ := strconv.Atoi(strings.TrimPrefix(h, "h")); return n }

func blockCoq(b *model.AllocationBlock) string {
	cidr := ipnum(b.CIDR.IP)
	aff := "None"
	if b.Affinity != nil {
		aff = fmt.Sprintf("(Some %d%%N)", hostNum(*b.Affinity))
	}
	var al []string
	for _, a := range b.Allocations {
		if a == nil {
			al = append(al, "None")
		} else {
			al = append(al, fmt.Sprintf("Some %d%%nat", *a))
		}
	}
	var un []string
	for _, u := range b.Unallocated {
		un = append(un, fmt.Sprintf("%d%%nat", u))
	}
	var at []string
	for _, a := range b.Attributes {
		h := "None"
		if a.HandleID != nil {
			h = fmt.Sprintf("(Some %d%%N)", handleNum(*a.HandleID))
		}
		tag := 0
		if a.ReleasedAt != nil {
			tag = 777777 // cooldown attribute: outside the model's domain, shows up as a disagreement
		} else if t, ok := a.ActiveOwnerAttrs["tag"]; ok {
			tag, _ = strconv.Atoi(t)
		}
		at = append(at, fmt.Sprintf("Build_attr %s %d%%N", h, tag))
	}
	return fmt.Sprintf("(Build_block %d%%N %s [%s] [%s] [%s] 0%%N [])", cidr, aff, strings.Join(al, "; "),
		strings.Join(un, "; "), strings.Join(at, "; "))
}

type dumpEnt struct {
	rank int
	a, b uint32
	key  string
	val  string
	blk  *model.AllocationBlock
}

func dump(st *mb.Store) []dumpEnt {
	var out []dumpEnt
	for _, kv := range st.Dump() {
		switch k := kv.Key.(type) {
		case model.BlockKey:
			c := ipnum(k.CIDR.Addr().AsSlice())
			b := kv.Value.(*model.AllocationBlock)
			out = append(out, dumpEnt{rank: 0, a: c, key: fmt.Sprintf("KBlock %d%%N", c), val: "VBlock " + blockCoq(b), blk: b})
		case model.IPAMHandleKey:
			h := kv.Value.(*model.IPAMHandle)
			type cn struct {
				c uint32
				n int
			}
			var l []cn
			for bk, n := range h.Block {
				_, ipn, _ := net.ParseCIDR(bk)
				l = append(l, cn{ipnum(ipn.IP), n})
			}
			sort.Slice(l, func(i, j int) bool { return l[i].c < l[j].c })
			var ss []string
			for _, x := range l {
				ss = append(ss, fmt.Sprintf("(%d%%N, %d%%N)", x.c, x.n))
			}
			id := uint32(handleNum(k.HandleID))
			out = append(out, dumpEnt{rank: 1, a: id, key: fmt.Sprintf("KHandle %d%%N", id), val: "VHandle [" + strings.Join(ss, "; ") + "]"})
		case model.BlockAffinityKey:
			t := k.AffinityType
			if t == "" {
				t = "host"
			}
			h := uint32(hostNum(t + ":" + k.Host))
			c := ipnum(k.CIDR.Addr().AsSlice())
			s := "APendingDeletion"
			switch kv.Value.(*model.BlockAffinity).State {
			case model.StatePending:
				s = "APending"
			case model.StateConfirmed:
				s = "AConfirmed"
			}
			out = append(out, dumpEnt{rank: 2, a: h, b: c, key: fmt.Sprintf("KAff %d%%N %d%%N", h, c), val: "VAff " + s})
		}
	}
	sort.SliceStable(out, func(i, j int) bool {
		x, y := out[i], out[j]
		if x.rank != y.rank {
			return x.rank < y.rank
		}
		if x.a != y.a {
			return x.a < y.a
		}
		return x.b < y.b
	})
	return out
}

type snapD struct {
	blocks [][3]int64 // cidr, aff (-1 none), size
	affs   [][2]uint32
}

func snapshot(st *mb.Store) snapD {
	var s snapD
	for _, e := range dump(st) {
		switch e.rank {
		case 0:
			aff := int64(-1)
			if e.blk.Affinity != nil {
				aff = int64(hostNum(*e.blk.Affinity))
			}
			s.blocks = append(s.blocks, [3]int64{int64(e.a), aff, int64(len(e.blk.Allocations))})
		case 2:
			s.affs = append(s.affs, [2]uint32{e.a, e.b})
		}
	}
	return s
}
func (s snapD) coq() string {
	var bs, as []string
	for _, b := range s.blocks {
		aff := "None"
		if b[1] >= 0 {
			aff = fmt.Sprintf("Some %d%%N", b[1])
		}
		bs = append(bs, fmt.Sprintf("(%d%%N, %s, %d%%nat)", b[0], aff, b[2]))
	}
	for _, a := range s.affs {
		as = append(as, fmt.Sprintf("(%d%%N, %d%%N)", a[0], a[1]))
	}
	return fmt.Sprintf("Build_snap [%s] [%s]", strings.Join(bs, "; "), strings.Join(as, "; "))
}
func (s snapD) countAffs(host uint32) int {
	n := 0
	for _, a := range s.affs {
		if a[0] == host {
			n++
		}
	}
	return n
}

// ---------------------------------------------------------------- generation
func genSel(r *rng, p int) []atom {
	if !r.chance(p) {
		return nil
	}
	n := 1
	if r.chance(25) {
		n = 2
	}
	var as []atom
	for i := 0; i < n; i++ {
		as = append(as, atom{kind: r.intn(4), k: r.intn(2), v: r.intn(2)})
	}
	return as
}
func genLabels(r *rng) [][2]int {
	var l [][2]int
	for k := 0; k < 2; k++ {
		if r.chance(55) {
			l = append(l, [2]int{k, r.intn(2)})
		}
	}
	return l
}

func genCfg(r *rng, boundary bool) cfgD {
	var c cfgD
	np := 1 + r.intn(3)
	if r.chance(15) {
		np = 4
	}
	for i := 0; i < np; i++ {
		p := poolD{base: 10<<24 | uint32(i+1)<<8}
		p.bsize = []int{4, 4, 4, 8, 8, 16, 32, 64}[r.intn(8)]
		p.nblocks = []int{1, 2, 2, 4}[r.intn(4)]
		if p.bsize >= 32 {
			p.nblocks = 1 + r.intn(2)
		}
		p.disabled = r.chance(12)
		p.manual = r.chance(8)
		switch k := r.intn(10); {
		case k < 4:
			p.uses = []int{0, 1}
		case k < 6:
			p.uses = []int{0}
		case k < 7:
			p.uses = []int{1}
		case k < 8:
			p.uses = []int{2}
		case k < 9:
			p.uses = []int{0, 1, 2}
		default:
			p.uses = []int{2, 0}
		}
		p.nodesel = genSel(r, 35)
		p.nssel = genSel(r, 25)
		c.pools = append(c.pools, p)
	}
	nn := 2 + r.intn(2)
	for i := 0; i < nn; i++ {
		c.nodes = append(c.nodes, genLabels(r))
	}
	// reservations
	nr := r.intn(4)
	if boundary {
		nr = 2 + r.intn(4)
	}
	for i := 0; i < nr; i++ {
		p := c.pools[r.intn(len(c.pools))]
		blk := p.base + uint32(r.intn(p.nblocks)*p.bsize)
		switch k := r.intn(10); {
		case k < 3: // one address
			c.resv = append(c.resv, [2]uint32{blk + uint32(r.intn(p.bsize)), 1})
		case k < 5: // an aligned pair
			c.resv = append(c.resv, [2]uint32{blk + uint32(2*r.intn(p.bsize/2)), 2})
		case k < 7: // half a block (two halves together cover it)
			c.resv = append(c.resv, [2]uint32{blk + uint32(r.intn(2)*p.bsize/2), uint32(p.bsize / 2)})
		case k < 9: // a whole block
			c.resv = append(c.resv, [2]uint32{blk, uint32(p.bsize)})
		default: // the block and its neighbour
			if p.nblocks >= 2 {
				c.resv = append(c.resv, [2]uint32{p.base + uint32((r.intn(p.nblocks)/2)*2*p.bsize), uint32(2 * p.bsize)})
			} else {
				c.resv = append(c.resv, [2]uint32{blk, uint32(p.bsize)})
			}
		}
	}
	switch k := r.intn(10); {
	case k < 4:
		c.strict, c.autoalloc = false, true
		if r.chance(20) {
			c.maxblocks = 1 + r.intn(2)
		}
	case k < 9:
		c.strict, c.autoalloc = true, true
		if r.chance(65) {
			c.maxblocks = 1 + r.intn(3)
		}
	default:
		c.strict, c.autoalloc = true, false
	}
	return c
}

type world struct {
	cfg   cfgD
	r     *rng
	alloc map[uint32]int // address -> handle, as far as the driver knows
}

func (w *world) blockOf(a uint32) uint32 {
	for _, p := range w.cfg.pools {
		if a >= p.base && a < p.base+uint32(p.nblocks*p.bsize) {
			return p.base + (a-p.base)/uint32(p.bsize)*uint32(p.bsize)
		}
	}
	return a
}

func (w *world) randomBlock() uint32 {
	p := w.cfg.pools[w.r.intn(len(w.cfg.pools))]
	return p.base + uint32(w.r.intn(p.nblocks)*p.bsize)
}

// genInner: an operation that runs while `outer` (an AutoAssign) is preempted: ReleaseAffinity of one of the outer
// host's blocks (or any block), or an AutoAssign / ReleaseByHandle of another node with handles h7..h9.
func (w *world) genInner(outer *opD, sn snapD) *opD {
	r := w.r
	k := r.intn(100)
	if k < 45 {
		o := &opD{kind: "relaff", node: outer.node, must: r.chance(50), addr: w.randomBlock()}
		var mine []uint32
		for _, a := range sn.affs {
			if a[0] == uint32(2*outer.node) {
				mine = append(mine, a[1])
			}
		}
		if len(mine) > 0 && r.chance(85) {
			o.addr = mine[r.intn(len(mine))]
		}
		return o
	}
	if k < 60 {
		return &opD{kind: "rbh", h: 7 + r.intn(3)}
	}
	for {
		o := w.genOp(false)
		if o.kind != "aa" {
			continue
		}
		o.node = (outer.node + 1 + r.intn(len(w.cfg.nodes)-1)) % len(w.cfg.nodes)
		o.h = 7 + r.intn(3)
		return o
	}
}

func (w *world) genOp(boundary bool) *opD {
	r := w.r
	k := r.intn(100)
	if r.chance(4) {
		return &opD{kind: "relaff", node: r.intn(len(w.cfg.nodes)), must: r.chance(60), addr: w.randomBlock()}
	}
	if k >= 65 && len(w.alloc) > 0 {
		var addrs []uint32
		for a := range w.alloc {
			addrs = append(addrs, a)
		}
		sort.Slice(addrs, func(i, j int) bool { return addrs[i] < addrs[j] })
		a := addrs[r.intn(len(addrs))]
		if k < 85 {
			o := &opD{kind: "rel"}
			h := w.alloc[a]
			if r.chance(30) {
				h = 0
			}
			o.rel = append(o.rel, relOpt{a, h})
			if r.chance(35) { // a second address of the same block and handle
				for _, b := range addrs {
					if b != a && w.blockOf(b) == w.blockOf(a) && w.alloc[b] == w.alloc[a] {
						h2 := h
						o.rel = append(o.rel, relOpt{b, h2})
						break
					}
				}
			}
			return o
		}
		return &opD{kind: "rbh", h: w.alloc[a]}
	}
	o := &opD{kind: "aa", node: r.intn(len(w.cfg.nodes)), h: 1 + r.intn(6), tag: r.intn(3), num: 1 + r.intn(3)}
	switch u := r.intn(100); {
	case u < 60:
		o.use = 0
	case u < 85:
		o.use = 1
	default:
		o.use = 2
	}
	if r.chance(12) {
		o.num = 4 + r.intn(6)
	}
	if r.chance(50) {
		o.ns = genLabels(r)
	} else {
		o.nsNil = true
	}
	if r.chance(18) || (boundary && r.chance(30)) {
		n := 1 + r.intn(2)
		for i := 0; i < n; i++ {
			p := w.cfg.pools[r.intn(len(w.cfg.pools))]
			o.req = append(o.req, [2]uint32{p.base, uint32(p.nblocks * p.bsize)})
		}
		if boundary && r.chance(25) { // a pool that does not exist
			o.req = append(o.req, [2]uint32{10<<24 | 200<<8, 16})
		}
	}
	if r.chance(15) {
		o.maxb = 1 + r.intn(3)
	}
	return o
}

// ---------------------------------------------------------------- one case
func runCase(seed uint64, boundary bool) (string, bool, string, map[string]any, []string) {
	r := &rng{s: seed}
	cfg := genCfg(r, boundary)
	logrus.SetLevel(logrus.PanicLevel)
	ctx := context.Background()

	pa := &poolAcc{}
	for i := range cfg.pools {
		p := &cfg.pools[i]
		mode := v3.Automatic
		if p.manual {
			mode = v3.Manual
		}
		var uses []v3.IPPoolAllowedUse
		for _, u := range p.uses {
			uses = append(uses, useNames[u])
		}
		pool := v3.IPPool{ObjectMeta: metav1.ObjectMeta{Name: fmt.Sprintf("pool%d", i)}, Spec: v3.IPPoolSpec{
			CIDR: fmt.Sprintf("%s/%d", ip4(p.base), 32-log2(p.nblocks*p.bsize)), BlockSize: 32 - log2(p.bsize),
			AllowedUses: uses, AssignmentMode: &mode, Disabled: p.disabled,
			NodeSelector: selString(p.nodesel), NamespaceSelector: selString(p.nssel),
		}}
		pa.pools = append(pa.pools, pool)
		for n := range cfg.nodes {
			order := ipam.VerifBlockOrder(pool, fmt.Sprintf("n%d", n))
			p.starts = append(p.starts, int(ipnum(order[0].IP)-p.base)/p.bsize)
		}
	}
	ra := &resvAcc{}
	for i, rv := range cfg.resv {
		cidr := fmt.Sprintf("%s/%d", ip4(rv[0]), 32-log2(int(rv[1])))
		if i > 0 && r.chance(40) { // several CIDRs in one IPReservation
			last := &ra.list.Items[len(ra.list.Items)-1]
			last.Spec.ReservedCIDRs = append(last.Spec.ReservedCIDRs, cidr)
			continue
		}
		ra.list.Items = append(ra.list.Items, v3.IPReservation{ObjectMeta: metav1.ObjectMeta{Name: fmt.Sprintf("r%d", i)},
			Spec: v3.IPReservationSpec{ReservedCIDRs: []string{cidr}}})
	}

	st := &recStore{Store: mb.NewStore()}
	for n, l := range cfg.nodes {
		node := internalapi.NewNode()
		node.Name = fmt.Sprintf("n%d", n)
		node.Labels = labMap(l)
		if _, err := st.Apply(ctx, &model.KVPair{Key: model.ResourceKey{Kind: internalapi.KindNode, Name: node.Name}, Value: node}); err != nil {
			panic(err)
		}
	}
	if cfg.strict || !cfg.autoalloc || cfg.maxblocks != 0 {
		if _, err := st.Apply(ctx, &model.KVPair{Key: model.IPAMConfigKey{}, Value: &model.IPAMConfig{
			StrictAffinity: cfg.strict, AutoAllocateBlocks: cfg.autoalloc, MaxBlocksPerHost: cfg.maxblocks}}); err != nil {
			panic(err)
		}
	}
	ic := ipam.NewIPAMClient(st, pa, ra)

	w := &world{cfg: cfg, r: r, alloc: map[uint32]int{}}
	nops := 25 + r.intn(16)
	okAssign, failAssign, effRel, globalCap := 0, 0, 0, false
	tags := map[string]bool{}
	// run one operation through the given client (the real ipamClient)
	execOp := func(cl ipam.Interface, o *opD) *resD {
		res := &resD{}
		hs := fmt.Sprintf("h%d", o.h)
		switch o.kind {
		case "aa":
			args := ipam.AutoAssignArgs{Num4: o.num, HandleID: &hs, Attrs: map[string]string{"tag": strconv.Itoa(o.tag)},
				Hostname: fmt.Sprintf("n%d", o.node), IntendedUse: useNames[o.use], MaxBlocksPerHost: o.maxb}
			if !o.nsNil {
				args.Namespace = &corev1.Namespace{ObjectMeta: metav1.ObjectMeta{Name: "ns", Labels: labMap(o.ns)}}
			}
			for _, rq := range o.req {
				_, ipn, _ := cnet.ParseCIDR(fmt.Sprintf("%s/%d", ip4(rq[0]), 32-log2(int(rq[1]))))
				args.IPv4Pools = append(args.IPv4Pools, *ipn)
			}
			v4, _, err := cl.AutoAssign(ctx, args)
			res.kind, res.err = "ips", classifyErr(err)
			if v4 != nil {
				for _, ipn := range v4.IPs {
					ones, _ := ipn.Mask.Size()
					res.ips = append(res.ips, [2]uint32{ipnum(ipn.IP), uint32(ones)})
					w.alloc[ipnum(ipn.IP)] = o.h
				}
			}
			if len(res.ips) == o.num && err == nil {
				okAssign++
			} else {
				failAssign++
				tags["assign:"+res.err+fmt.Sprintf(":partial=%v", len(res.ips) > 0)] = true
			}
			tags["use:"+string(useNames[o.use])] = true
			if len(o.req) > 0 {
				tags["requested-pools"] = true
			}
		case "rel":
			var ro []ipam.ReleaseOptions
			for _, x := range o.rel {
				opt := ipam.ReleaseOptions{Address: ip4(x.addr).String()}
				if x.h != 0 {
					opt.Handle = fmt.Sprintf("h%d", x.h)
				}
				ro = append(ro, opt)
			}
			un, _, err := cl.ReleaseIPs(ctx, ro...)
			res.kind, res.err = "rel", classifyErr(err)
			for _, u := range un {
				res.un = append(res.un, ipnum(u.IP))
			}
			sort.Slice(res.un, func(i, j int) bool { return res.un[i] < res.un[j] })
			if err == nil {
				for _, x := range o.rel {
					delete(w.alloc, x.addr)
				}
				if len(un) < len(o.rel) {
					effRel++
				}
			}
		case "relaff":
			bl := 30
			for _, p := range cfg.pools {
				if o.addr >= p.base && o.addr < p.base+uint32(p.nblocks*p.bsize) {
					bl = 32 - log2(p.bsize)
				}
			}
			_, ipn, _ := cnet.ParseCIDR(fmt.Sprintf("%s/%d", ip4(o.addr), bl))
			err := cl.ReleaseAffinity(ctx, *ipn, fmt.Sprintf("n%d", o.node), o.must)
			res.kind, res.err = "err", classifyErr(err)
			tags["release-affinity"] = true
		default:
			st.rec, st.gets = true, nil
			err := cl.ReleaseByHandle(ctx, hs)
			st.rec = false
			seen := map[uint32]bool{}
			for _, c := range st.gets {
				if !seen[c] {
					seen[c] = true
					o.hint = append(o.hint, c)
				}
			}
			res.kind, res.err = "err", classifyErr(err)
			if err == nil {
				effRel++
				for a, h := range w.alloc {
					if h == o.h {
						delete(w.alloc, a)
					}
				}
			}
		}
		return res
	}
	type obsD struct {
		o         *opD
		res       *resD
		pre, post snapD
	}
	var obsL []obsD
	var itemsC []string
	checkCap := func(ob obsD) {
		o := ob.o
		if o.kind != "aa" {
			return
		}
		host := uint32(2 * o.node)
		if o.use == 2 {
			host++
		}
		capv := cfg.maxblocks
		if o.maxb != 0 && (capv == 0 || o.maxb < capv) {
			capv = o.maxb
		}
		if capv == 0 {
			capv = 20
		}
		if after, before := ob.post.countAffs(host), ob.pre.countAffs(host); after > capv && after > before {
			globalCap = true
		}
	}
	npre := 0
	for k := 0; k < nops; k++ {
		o := w.genOp(boundary)
		if o.kind == "aa" && len(cfg.nodes) > 1 && r.chance(25) {
			// one preemption: the operation runs on the membackend scheduler until it has made kChosen accesses or is
			// about to write a block for the first time; then other complete operations run; then it resumes.
			sched := mb.NewSched(st.Store)
			sched.Scheduled = mb.IPAMOnly
			runner := mb.NewRunner(sched)
			icp := ipam.NewIPAMClient(sched.Client(0), pa, ra)
			pre := snapshot(st.Store)
			var res *resD
			runner.Start(0, func() { res = execOp(icp, o) })
			kChosen, steps, kAt := r.intn(10), 0, -1
			var inner []obsD
			for len(runner.Pending()) > 0 {
				call := runner.Peek(0)
				_, isBlk := call.Key.(model.BlockKey)
				if kAt < 0 && (steps == kChosen || (call.Op == "update" && isBlk)) {
					kAt = steps
					if call.Op == "update" && isBlk {
						tags["preempt:at-block-write"] = true
					} else {
						tags["preempt:earlier"] = true
					}
					for n := 1 + r.intn(3); n > 0; n-- {
						io := w.genInner(o, snapshot(st.Store))
						ipre := snapshot(st.Store)
						ires := execOp(ic, io)
						inner = append(inner, obsD{io, ires, ipre, snapshot(st.Store)})
					}
				}
				runner.Step(0, mb.Proceed)
				steps++
			}
			outer := obsD{o, res, pre, snapshot(st.Store)}
			obsL = append(obsL, outer)
			obsL = append(obsL, inner...)
			if kAt >= 0 {
				npre++
				var ic_ []string
				for _, x := range inner {
					ic_ = append(ic_, x.o.coq())
				}
				itemsC = append(itemsC, fmt.Sprintf("IPre (%s) %d%%nat [%s]", o.coq(), kAt, strings.Join(ic_, "; ")))
			} else {
				itemsC = append(itemsC, fmt.Sprintf("IOp (%s)", o.coq()))
			}
			continue
		}
		pre := snapshot(st.Store)
		res := execOp(ic, o)
		obsL = append(obsL, obsD{o, res, pre, snapshot(st.Store)})
		itemsC = append(itemsC, fmt.Sprintf("IOp (%s)", o.coq()))
	}
	if npre > 0 {
		tags["preempted-ops"] = true
	}

	var opsC, obsC, finC, opsT []string
	for _, ob := range obsL {
		checkCap(ob)
		opsC = append(opsC, ob.o.coq())
		obsC = append(obsC, fmt.Sprintf("Build_obs (%s) (%s) (%s) (%s)", ob.o.coq(), ob.res.coq(), ob.pre.coq(), ob.post.coq()))
		opsT = append(opsT, ob.o.text()+" -> "+ob.res.text())
	}
	for _, e := range dump(st.Store) {
		finC = append(finC, fmt.Sprintf("(%s, %s)", e.key, e.val))
	}
	key := fmt.Sprintf("%s|%s", cfg.coq(), strings.Join(itemsC, ";"))
	mk := func(literal bool) string {
		return fmt.Sprintf("Build_case %s [%s] [%s] [%s] %v", cfg.coq(), strings.Join(itemsC, "; "), strings.Join(obsC, "; "),
			strings.Join(finC, "; "), literal)
	}
	var poolT []string
	for i, p := range pa.pools {
		poolT = append(poolT, fmt.Sprintf("%s %s blockSize=%d uses=%v disabled=%v mode=%s nodeSelector=%q namespaceSelector=%q", p.Name, p.Spec.CIDR,
			p.Spec.BlockSize, p.Spec.AllowedUses, p.Spec.Disabled, *p.Spec.AssignmentMode, p.Spec.NodeSelector, p.Spec.NamespaceSelector))
		_ = i
	}
	var resvT []string
	for _, rv := range cfg.resv {
		resvT = append(resvT, fmt.Sprintf("%s/%d", ip4(rv[0]), 32-log2(int(rv[1]))))
	}
	var nodeT []string
	for i, l := range cfg.nodes {
		nodeT = append(nodeT, fmt.Sprintf("n%d %v", i, labMap(l)))
	}
	sample := map[string]any{"pools": poolT, "reservations": resvT, "nodes": nodeT,
		"ipamconfig": fmt.Sprintf("strict=%v autoAllocate=%v maxBlocksPerHost=%d", cfg.strict, cfg.autoalloc, cfg.maxblocks), "ops": opsT}
	tags[fmt.Sprintf("variant:claimBumps=%v,capFixed=%v", claimBumps, capFixed)] = true
	tags[fmt.Sprintf("pools:%d", len(cfg.pools))] = true
	tags[fmt.Sprintf("strict:%v,auto:%v,cap:%v", cfg.strict, cfg.autoalloc, cfg.maxblocks != 0)] = true
	if len(cfg.resv) > 0 {
		tags["reservations"] = true
	}
	if boundary {
		tags["stream:boundary"] = true
	} else {
		tags["stream:main"] = true
	}
	var tl []string
	for t := range tags {
		tl = append(tl, t)
	}
	sort.Strings(tl)
	nt := okAssign > 0 && failAssign > 0 && effRel > 0
	coq := mk(true)
	if globalCap {
		sample["literal_cap_exceeded"] = true
	}
	sample["coq_without_literal_cap"] = globalCap
	return coq + "\x00" + mk(false) + "\x00" + strconv.FormatBool(globalCap), nt, key, sample, tl
}

// ---------------------------------------------------------------- probes of the tree under test
var claimBumps, capFixed bool

func probePools(uses ...[]v3.IPPoolAllowedUse) *poolAcc {
	pa := &poolAcc{}
	for i, u := range uses {
		mode := v3.Automatic
		pa.pools = append(pa.pools, v3.IPPool{ObjectMeta: metav1.ObjectMeta{Name: fmt.Sprintf("pool%d", i)}, Spec: v3.IPPoolSpec{
			CIDR: fmt.Sprintf("10.0.%d.0/29", i+1), BlockSize: 30, AllowedUses: u, AssignmentMode: &mode}})
	}
	return pa
}

func probeStore(maxblocks int) *recStore {
	st := &recStore{Store: mb.NewStore()}
	ctx := context.Background()
	n := internalapi.NewNode()
	n.Name = "n0"
	if _, err := st.Apply(ctx, &model.KVPair{Key: model.ResourceKey{Kind: internalapi.KindNode, Name: n.Name}, Value: n}); err != nil {
		panic(err)
	}
	if maxblocks != 0 {
		if _, err := st.Apply(ctx, &model.KVPair{Key: model.IPAMConfigKey{}, Value: &model.IPAMConfig{
			StrictAffinity: true, AutoAllocateBlocks: true, MaxBlocksPerHost: maxblocks}}); err != nil {
			panic(err)
		}
	}
	return st
}

// probeClaimBumps: with fixes/C22-claim-existing-block-bumps-revision.patch a ClaimAffinity of a block this host already
// owns writes the block back (one block update) before confirming the affinity; the pinned code updates no block there.
func probeClaimBumps() bool {
	logrus.SetLevel(logrus.PanicLevel)
	ctx := context.Background()
	st := probeStore(0)
	ic := ipam.NewIPAMClient(st, probePools([]v3.IPPoolAllowedUse{v3.IPPoolAllowedUseWorkload}), &resvAcc{})
	_, cidr, _ := cnet.ParseCIDR("10.0.1.0/30")
	cfg := ipam.AffinityConfig{AffinityType: ipam.AffinityTypeHost, Host: "n0"}
	_, _, _ = ic.ClaimAffinity(ctx, *cidr, cfg)
	st.blockUpdates = 0
	_, _, _ = ic.ClaimAffinity(ctx, *cidr, cfg)
	return st.blockUpdates > 0
}

// probeCapFix: with fixes/C20-count-all-affine-blocks.patch the per-host block limit counts every block affine to the
// host: pools A (Workload) and B (Tunnel), MaxBlocksPerHost = 1; after a Workload address the Tunnel request must fail
// with ErrBlockLimit.  The pinned code claims a second block.
func probeCapFix() bool {
	logrus.SetLevel(logrus.PanicLevel)
	ctx := context.Background()
	st := probeStore(1)
	ic := ipam.NewIPAMClient(st, probePools([]v3.IPPoolAllowedUse{v3.IPPoolAllowedUseWorkload}, []v3.IPPoolAllowedUse{v3.IPPoolAllowedUseTunnel}), &resvAcc{})
	h := "probe"
	_, _, err := ic.AutoAssign(ctx, ipam.AutoAssignArgs{Num4: 1, HandleID: &h, Hostname: "n0", IntendedUse: v3.IPPoolAllowedUseWorkload})
	if err != nil {
		panic(err)
	}
	_, _, err = ic.AutoAssign(ctx, ipam.AutoAssignArgs{Num4: 1, HandleID: &h, Hostname: "n0", IntendedUse: v3.IPPoolAllowedUseTunnel})
	return errors.Is(err, ipam.ErrBlockLimit)
}

type line struct {
	Coq    string         `json:"coq"`
	NT     bool           `json:"nt"`
	Key    string         `json:"key"`
	Sample map[string]any `json:"sample,omitempty"`
	Tags   []string       `json:"tags"`
}

func main() {
	n := flag.Int("n", 100, "cases")
	seed := flag.Uint64("seed", 1, "seed")
	only := flag.Int("only", -1, "emit only the case with this index (replay)")
	flip := flag.Bool("model-flip", false, "tell the model the opposite of what the probes found (debugging aid)")
	flag.Parse()
	claimBumps, capFixed = probeClaimBumps(), probeCapFix()
	if *flip {
		claimBumps, capFixed = !claimBumps, !capFixed
	}
	enc := json.NewEncoder(os.Stdout)
	for i := 0; i < *n; i++ {
		if *only >= 0 && i != *only {
			continue
		}
		boundary := i%5 == 4
		packed, nt, key, sample, tags := runCase(*seed*1000003+uint64(i)*7919, boundary)
		parts := strings.Split(packed, "\x00")
		sample["replay_args"] = fmt.Sprintf("-n %d -seed %d -only %d", i+1, *seed, i)
		delete(sample, "coq_without_literal_cap")
		if parts[2] == "true" {
			// the host ends up with more affine blocks than MaxBlocksPerHost counted over ALL its blocks: the case is
			// emitted twice, once judged by the literal reading of the cap (known finding) and once without it, so that
			// the finding cannot hide any other failure of the same history.
			_ = enc.Encode(line{Coq: parts[0], NT: nt, Key: key + "|literal", Sample: sample, Tags: append(tags, "finding:block-cap-counts-only-allowed-pools")})
			_ = enc.Encode(line{Coq: parts[1], NT: nt, Key: key, Sample: sample, Tags: tags})
		} else {
			_ = enc.Encode(line{Coq: parts[0], NT: nt, Key: key, Sample: sample, Tags: tags})
		}
	}
}
