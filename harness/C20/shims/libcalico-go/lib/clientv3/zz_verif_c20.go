//go:build verif

package clientv3

import (
	v3 "github.com/projectcalico/api/pkg/apis/projectcalico/v3"
)

// VerifFilterIPPool exposes the filter behind poolAccessor.GetEnabledPools (which pools count as enabled for IPAM).
func VerifFilterIPPool(pool *v3.IPPool, ipVersion int) bool { return filterIPPool(pool, ipVersion) }
