//go:build verif

package labelindex

// Read-only access to the InheritIndex's current match relation for the C07 correspondence driver.

// VerifBySel returns labelIdsBySelId as selector id -> item ids.
func (idx *InheritIndex) VerifBySel() map[any][]any {
	out := map[any][]any{}
	for s, set := range idx.labelIdsBySelId {
		out[s] = []any{}
		for i := range set.All() {
			out[s] = append(out[s], i)
		}
	}
	return out
}

// VerifByItem returns selIdsByLabelId as item id -> selector ids.
func (idx *InheritIndex) VerifByItem() map[any][]any {
	out := map[any][]any{}
	for i, set := range idx.selIdsByLabelId {
		out[i] = []any{}
		for s := range set.All() {
			out[i] = append(out[i], s)
		}
	}
	return out
}

// VerifDirty returns the number of items still marked dirty.
func (idx *InheritIndex) VerifDirty() int { return idx.dirtyItemIDs.Len() }

// VerifIterCandidates returns the endpoint ids iterEndpointCandidates produces for an existing IP set.
func (idx *SelectorAndNamedPortIndex) VerifIterCandidates(ipSetID string) []any {
	var out []any
	idx.iterEndpointCandidates(ipSetID, func(epID any, _ *endpointData) { out = append(out, epID) })
	return out
}
