//go:build verif

// C07 correspondence driver.  Four streams of cases, all run on the REAL code:
//
//	idx    histories of UpdateLabels/DeleteLabels/UpdateParentLabels/DeleteParentLabels/UpdateSelector/DeleteSelector on
//	       labelindex.InheritIndex with recording callbacks; after every op the callbacks fired and both match maps
//	restr  selectors built by the real parser, their real LabelRestrictions() and real Evaluate on label maps
//	ri     labelrestrictionindex.LabelRestrictionIndex: AddSelector/DeleteSelector/AllPotentialMatches
//	nv     labelnamevalueindex.LabelNameValueIndex: Add/Remove/StrategyFor(...).Scan
//
// Each case is printed as one JSON line carrying the Coq term of type Verif.C07.Spec.case.
package main

import (
	"encoding/json"
	"flag"
	"fmt"
	"iter"
	"os"
	"sort"
	"strings"

	"github.com/sirupsen/logrus"

	"github.com/projectcalico/calico/felix/labelindex"
	"github.com/projectcalico/calico/felix/labelindex/ipsetmember"
	"github.com/projectcalico/calico/felix/labelindex/labelnamevalueindex"
	"github.com/projectcalico/calico/felix/labelindex/labelrestrictionindex"
	"github.com/projectcalico/calico/lib/std/uniquelabels"
	"github.com/projectcalico/calico/lib/std/uniquestr"
	"github.com/projectcalico/calico/libcalico-go/lib/selector"
	"github.com/projectcalico/calico/libcalico-go/lib/selector/parser"
)

type rng struct{ s uint64 }

func (r *rng) next() uint64 {
	r.s += 0x9e3779b97f4a7c15
	z := r.s
	z = (z ^ (z >> 30)) * 0xbf58476d1ce4e5b9
	z = (z ^ (z >> 27)) * 0x94d049bb133111eb
	return z ^ (z >> 31)
}
func (r *rng) intn(n int) int          { return int(r.next() % uint64(n)) }
func (r *rng) chance(p int) bool       { return r.intn(100) < p }
func (r *rng) pick(xs []string) string { return xs[r.intn(len(xs))] }

type line struct {
	Coq    string         `json:"coq"`
	NT     bool           `json:"nt"`
	Key    string         `json:"key"`
	Sample map[string]any `json:"sample,omitempty"`
	Tags   []string       `json:"tags"`
}

// ---------------------------------------------------------------- vocabulary

var keys = []string{"a", "b", "c"}
var vals = []string{"x", "y", "z", "xy", "yx"}

func genLabels(r *rng, maxKeys int) map[string]string {
	m := map[string]string{}
	for _, k := range keys[:maxKeys] {
		if r.chance(50) {
			m[k] = r.pick(vals)
		}
	}
	return m
}

// ---------------------------------------------------------------- selector generator (text -> real parser)

func genSet(r *rng) string {
	n := r.intn(4)
	var xs []string
	for i := 0; i < n; i++ {
		xs = append(xs, `"`+r.pick(vals)+`"`)
	}
	return "{" + strings.Join(xs, ", ") + "}"
}

// focus is the label most atoms of one expression talk about, so that And/Or operands restrict the SAME label
// (the interesting case for intersection/union of value sets).
var focus = "a"

func genAtom(r *rng) string {
	k := r.pick(keys)
	if r.chance(55) {
		k = focus
	}
	v := r.pick(vals)
	switch r.intn(16) {
	case 0, 1, 2:
		return fmt.Sprintf(`%s == "%s"`, k, v)
	case 3:
		return fmt.Sprintf(`%s != "%s"`, k, v)
	case 4, 5:
		return fmt.Sprintf(`has(%s)`, k)
	case 6, 7:
		return fmt.Sprintf(`!has(%s)`, k)
	case 8, 9:
		return fmt.Sprintf(`%s in %s`, k, genSet(r))
	case 10:
		return fmt.Sprintf(`%s not in %s`, k, genSet(r))
	case 11:
		return fmt.Sprintf(`%s contains "%s"`, k, r.pick([]string{"x", "y", "xy"}))
	case 12:
		return fmt.Sprintf(`%s starts with "%s"`, k, r.pick([]string{"x", "y", "xy"}))
	case 13:
		return fmt.Sprintf(`%s ends with "%s"`, k, r.pick([]string{"x", "y", "yx"}))
	case 14:
		return "all()"
	default:
		if r.chance(30) {
			return "global()"
		}
		return fmt.Sprintf(`!(%s == "%s")`, k, v)
	}
}

// genSameLabel builds nested &&/|| expressions whose operands all restrict the SAME label with value lists written
// in arbitrary (mostly non-ascending) order: `==` alternatives, `in {...}` (with repeats), ORs as non-first operands of
// ANDs, ORs inside ORs.  This is where the value slices of the restriction summaries are intersected and united.
func genSameLabel(r *rng, d int) string {
	k := r.pick(keys)
	target := r.pick(vals) // most operands admit this value, so the intersection is usually non-empty
	var valAtom func() string
	valAtom = func() string {
		v := r.pick(vals)
		if r.chance(60) {
			v = target
		}
		switch r.intn(10) {
		case 0:
			return fmt.Sprintf("has(%s)", k)
		case 1, 2, 3:
			n := 1 + r.intn(4)
			xs := []string{`"` + v + `"`}
			for i := 1; i < n; i++ {
				xs = append(xs, `"`+r.pick(vals)+`"`)
			}
			// shuffle, repeats allowed
			for i := len(xs) - 1; i > 0; i-- {
				j := r.intn(i + 1)
				xs[i], xs[j] = xs[j], xs[i]
			}
			return fmt.Sprintf("%s in {%s}", k, strings.Join(xs, ", "))
		default:
			return fmt.Sprintf(`%s == "%s"`, k, v)
		}
	}
	var orOf, andOf func(d int) string
	orOf = func(d int) string {
		n := 2 + r.intn(3)
		alts := make([]string, n)
		pos := r.intn(n)
		for i := range alts {
			switch {
			case i == pos && r.chance(70):
				alts[i] = fmt.Sprintf(`%s == "%s"`, k, target)
			case d > 0 && r.chance(25):
				alts[i] = orOf(d - 1)
			case d > 0 && r.chance(15):
				alts[i] = andOf(d - 1)
			default:
				alts[i] = valAtom()
			}
		}
		return "(" + strings.Join(alts, " || ") + ")"
	}
	andOf = func(d int) string {
		n := 2 + r.intn(2)
		parts := make([]string, n)
		for i := range parts {
			switch {
			case i > 0 && r.chance(65): // an OR as a non-first operand
				parts[i] = orOf(d - 1)
			case i == 0 && r.chance(25):
				parts[i] = orOf(d - 1)
			case r.chance(10):
				parts[i] = genAtom(r) // something about another label
			default:
				parts[i] = valAtom()
			}
		}
		return "(" + strings.Join(parts, " && ") + ")"
	}
	if r.chance(80) {
		return andOf(d)
	}
	return orOf(d)
}

// genSel is what the streams use: a general expression or a same-label one.
var lastSameLabel bool

func genSel(r *rng, d int) string {
	lastSameLabel = r.chance(40)
	if lastSameLabel {
		return genSameLabel(r, 1+r.intn(2))
	}
	return genExpr(r, d)
}

func genExpr(r *rng, d int) string {
	if r.chance(20) {
		focus = r.pick(keys)
	}
	if d <= 0 || r.chance(35) {
		return genAtom(r)
	}
	n := 2 + r.intn(2)
	parts := make([]string, n)
	for i := range parts {
		parts[i] = genExpr(r, d-1)
	}
	op := " && "
	if r.chance(45) {
		op = " || "
	}
	e := "(" + strings.Join(parts, op) + ")"
	if r.chance(12) {
		e = "!" + e
	}
	return e
}

// ---------------------------------------------------------------- Coq printers

func coqBytes(s string) string {
	if len(s) == 0 {
		return "(@nil N)"
	}
	var sb strings.Builder
	sb.WriteString("[")
	for i := 0; i < len(s); i++ {
		if i > 0 {
			sb.WriteString(";")
		}
		fmt.Fprintf(&sb, "%d", s[i])
	}
	sb.WriteString("]%N")
	return sb.String()
}

func coqBytesList(xs []string) string {
	if len(xs) == 0 {
		return "(@nil (list N))"
	}
	ys := make([]string, len(xs))
	for i, x := range xs {
		ys[i] = coqBytes(x)
	}
	return "[" + strings.Join(ys, "; ") + "]"
}

func coqLabels(m map[string]string) string {
	if len(m) == 0 {
		return "(@nil (list N * list N))"
	}
	ks := make([]string, 0, len(m))
	for k := range m {
		ks = append(ks, k)
	}
	sort.Strings(ks)
	es := make([]string, len(ks))
	for j, k := range ks {
		es[j] = "(" + coqBytes(k) + ", " + coqBytes(m[k]) + ")"
	}
	return "[" + strings.Join(es, "; ") + "]"
}

func coqNList(xs []int) string {
	if len(xs) == 0 {
		return "(@nil N)"
	}
	ys := make([]string, len(xs))
	for i, x := range xs {
		ys[i] = fmt.Sprint(x)
	}
	return "[" + strings.Join(ys, ";") + "]%N"
}

func coqList(ty string, xs []string) string {
	if len(xs) == 0 {
		return "(@nil " + ty + ")"
	}
	return "[" + strings.Join(xs, "; ") + "]"
}

func handles(hs []uniquestr.Handle) []string {
	out := make([]string, len(hs))
	for i, h := range hs {
		out[i] = h.Value()
	}
	return out
}

// coqAst prints the node tree the REAL parser built.
func coqAst(n parser.Node) string {
	switch x := n.(type) {
	case *parser.LabelEqValueNode:
		return fmt.Sprintf("(SEq %s %s)", coqBytes(x.LabelName.Value()), coqBytes(x.Value.Value()))
	case *parser.LabelNeValueNode:
		return fmt.Sprintf("(SNe %s %s)", coqBytes(x.LabelName.Value()), coqBytes(x.Value.Value()))
	case *parser.LabelContainsValueNode:
		return fmt.Sprintf("(SContains %s %s)", coqBytes(x.LabelName.Value()), coqBytes(x.Value.Value()))
	case *parser.LabelStartsWithValueNode:
		return fmt.Sprintf("(SStartsWith %s %s)", coqBytes(x.LabelName.Value()), coqBytes(x.Value.Value()))
	case *parser.LabelEndsWithValueNode:
		return fmt.Sprintf("(SEndsWith %s %s)", coqBytes(x.LabelName.Value()), coqBytes(x.Value.Value()))
	case *parser.LabelInSetNode:
		return fmt.Sprintf("(SIn %s %s)", coqBytes(x.LabelName.Value()), coqBytesList(handles(x.Value)))
	case *parser.LabelNotInSetNode:
		return fmt.Sprintf("(SNotIn %s %s)", coqBytes(x.LabelName.Value()), coqBytesList(handles(x.Value)))
	case *parser.HasNode:
		return fmt.Sprintf("(SHas %s)", coqBytes(x.LabelName.Value()))
	case *parser.AllNode:
		return "SAll"
	case *parser.GlobalNode:
		return "SGlobal"
	case *parser.NotNode:
		return "(SNot " + coqAst(x.Operand) + ")"
	case *parser.AndNode:
		ys := make([]string, len(x.Operands))
		for i, o := range x.Operands {
			ys[i] = coqAst(o)
		}
		return "(SAnd " + coqList("ast", ys) + ")"
	case *parser.OrNode:
		ys := make([]string, len(x.Operands))
		for i, o := range x.Operands {
			ys[i] = coqAst(o)
		}
		return "(SOr " + coqList("ast", ys) + ")"
	}
	panic(fmt.Sprintf("unknown node type %T", n))
}

func coqBool(b bool) string {
	if b {
		return "true"
	}
	return "false"
}

func coqRestr(res parser.LabelRestriction) string {
	v := "None"
	if res.MustHaveOneOfValues != nil {
		// in the order the implementation holds them (the model reproduces the order)
		v = "(Some " + coqBytesList(handles(res.MustHaveOneOfValues)) + ")"
	}
	return fmt.Sprintf("{| r_present := %s; r_absent := %s; r_vals := %s |}", coqBool(res.MustBePresent), coqBool(res.MustBeAbsent), v)
}

func coqRmap(lr parser.LabelRestrictions) (string, int) {
	type kv struct {
		k string
		r parser.LabelRestriction
	}
	var es []kv
	for k, r := range lr.All() {
		es = append(es, kv{k.Value(), r})
	}
	sort.Slice(es, func(i, j int) bool { return es[i].k < es[j].k })
	ys := make([]string, len(es))
	for i, e := range es {
		ys[i] = "(" + coqBytes(e.k) + ", " + coqRestr(e.r) + ")"
	}
	return coqList("(list N * restr)", ys), len(es)
}

func mustParse(s string) *selector.Selector {
	sel, err := selector.Parse(s)
	if err != nil {
		panic("generator produced an unparsable selector: " + s + ": " + err.Error())
	}
	return sel
}

// ---------------------------------------------------------------- stream 1: InheritIndex

type pair struct{ a, b int }

func sortedPairs(m map[any][]any) []pair {
	var ps []pair
	for a, bs := range m {
		for _, b := range bs {
			ps = append(ps, pair{a.(int), b.(int)})
		}
	}
	sort.Slice(ps, func(i, j int) bool {
		if ps[i].a != ps[j].a {
			return ps[i].a < ps[j].a
		}
		return ps[i].b < ps[j].b
	})
	return ps
}

func coqPairs(ps []pair) string {
	if len(ps) == 0 {
		return "(@nil (N * N))"
	}
	ys := make([]string, len(ps))
	for i, p := range ps {
		ys[i] = fmt.Sprintf("(%d,%d)", p.a, p.b)
	}
	return "[" + strings.Join(ys, ";") + "]%N"
}

func idxCase(r *rng) line {
	tags0 := ""
	var events []string
	var evSample []string
	idx := labelindex.NewInheritIndex(
		func(s, i any) {
			events = append(events, fmt.Sprintf("Start %d %d", s.(int), i.(int)))
			evSample = append(evSample, fmt.Sprintf("+%d/%d", s.(int), i.(int)))
		},
		func(s, i any) {
			events = append(events, fmt.Sprintf("Stop %d %d", s.(int), i.(int)))
			evSample = append(evSample, fmt.Sprintf("-%d/%d", s.(int), i.(int)))
		})
	nItems, nParents, nSels := 2+r.intn(3), 1+r.intn(3), 2+r.intn(3)
	// pool of selectors for this history (re-sending one exercises the "unchanged selector" path)
	pool := make([]string, 3+r.intn(4))
	for i := range pool {
		pool[i] = genSel(r, r.intn(3))
	}
	nops := 10 + r.intn(26)
	// "collide" histories: several parents set the SAME label (ckey) to DIFFERENT values (parent p -> cvals[p]), the
	// items leave that label to their parents, the selectors tell the values apart, and UpdateLabels calls change
	// only the ORDER or the MULTIPLICITY of an item's parent ids (own labels untouched).  The first listed parent
	// wins, so such an update must move matches.
	collide := r.chance(45)
	ckey := r.pick(keys)
	cvals := []string{"x", "y", "z"}
	var prelude []int
	if collide {
		nParents = 2 + r.intn(2)
		pool = append([]string{
			fmt.Sprintf(`%s == "x"`, ckey), fmt.Sprintf(`%s == "y"`, ckey),
			fmt.Sprintf(`%s in {"y", "z"}`, ckey), fmt.Sprintf(`has(%s) && %s != "x"`, ckey, ckey)}, pool[:2]...)
		if r.chance(50) {
			prelude = []int{200, 200, 201, 201, 202, 203, 203, 202, 203}
			tags0 = "idx:selector-first"
		} else {
			prelude = []int{201, 202, 201, 202, 200, 200, 203, 203, 200, 203}
			tags0 = "idx:endpoint-first"
		}
		nops += len(prelude)
	}
	type itemState struct {
		L  map[string]string
		um uniquelabels.Map
		ps []int
	}
	cur := map[int]*itemState{}
	nextPar := 0
	sawReorder, sawReorderMoves := false, false
	var ops, outs, sample, keyParts []string
	tags := map[string]bool{}
	sawStop, sawParentEvent, sawOverride, sawDupParents := false, false, false, false
	parentHas := map[int]map[string]string{}
	for j := 0; j < nops; j++ {
		events, evSample = nil, nil
		var opS, opH string
		parentOp := false
		k := r.intn(100)
		if j < len(prelude) {
			k = prelude[j]
		} else if collide && r.chance(22) {
			k = 203
		}
		// 203: change only the order / multiplicity of an item's parent ids
		var reItem *itemState
		reID := -1
		if k == 203 {
			start := r.intn(nItems)
			for q := 0; q < nItems; q++ {
				c := (start + q) % nItems
				if st := cur[c]; st != nil && len(st.ps) >= 2 {
					reItem, reID = st, c
					break
				}
			}
			if reItem == nil {
				k = 202
			}
		}
		switch {
		case k == 203:
			old := reItem.ps
			nw := append([]int{}, old...)
			distinct := map[int]bool{}
			for _, p := range old {
				distinct[p] = true
			}
			how := ""
			switch {
			case len(distinct) >= 2 && (len(old) < 3 || r.chance(60)):
				// a genuine re-ordering: rotate until the list differs
				for {
					nw = append(nw[1:], nw[0])
					same := true
					for q := range nw {
						if nw[q] != old[q] {
							same = false
						}
					}
					if !same {
						break
					}
				}
				how = "reorder"
			case len(distinct) >= 2:
				// same set, same length, other multiplicities: [p,p,q] -> [p,q,q]
				cnt := map[int]int{}
				for _, p := range old {
					cnt[p]++
				}
				for q, p := range nw {
					if cnt[p] >= 2 {
						for o := range distinct {
							if o != p {
								nw[q] = o
								break
							}
						}
						break
					}
				}
				how = "multiplicity"
			default:
				// [p,p] -> [p,q]: one of the duplicates replaced by another parent, equal length
				nw[len(nw)-1] = (old[0] + 1 + r.intn(nParents-1)) % nParents
				if nParents < 2 {
					nw[len(nw)-1] = old[0]
				}
				how = "replace-duplicate"
			}
			pstr := make([]string, len(nw))
			for q, p := range nw {
				pstr[q] = fmt.Sprintf("p%d", p)
			}
			idx.UpdateLabels(reID, reItem.um, pstr)
			reItem.ps = nw
			opS = fmt.Sprintf("(OpUpdateLabels %d %s %s)", reID, coqLabels(reItem.L), coqNList(nw))
			opH = fmt.Sprintf("UpdateLabels(%d,%v,%v) [%s of parents only]", reID, reItem.L, pstr, how)
			tags["op:UpdateLabels"] = true
			tags["idx:parents-"+how] = true
			sawReorder = true
			if len(events) > 0 {
				sawReorderMoves = true
			}
		case k < 32 || k == 202:
			i := r.intn(nItems)
			L := genLabels(r, 1+r.intn(3)) // often only some keys, so that inherited labels matter
			np := r.intn(3)
			if r.chance(10) {
				np = 3
			}
			if collide {
				if r.chance(85) {
					delete(L, ckey) // leave the contested label to the parents
				}
				np = 2 + r.intn(2)
			}
			var pids []int
			var pstr []string
			for q := 0; q < np; q++ {
				p := r.intn(nParents)
				if k == 202 && q == 1 && p == pids[0] {
					p = (p + 1) % nParents // the forced update names two different parents
				}
				pids = append(pids, p)
				pstr = append(pstr, fmt.Sprintf("p%d", p))
			}
			seen := map[int]bool{}
			for _, p := range pids {
				if seen[p] {
					sawDupParents = true
				}
				seen[p] = true
				for kk := range parentHas[p] {
					if _, own := L[kk]; own {
						sawOverride = true
					}
				}
			}
			var um uniquelabels.Map
			if len(L) > 0 || r.chance(50) {
				um = uniquelabels.Make(L)
			}
			idx.UpdateLabels(i, um, pstr)
			cur[i] = &itemState{L: L, um: um, ps: pids}
			opS = fmt.Sprintf("(OpUpdateLabels %d %s %s)", i, coqLabels(L), coqNList(pids))
			opH = fmt.Sprintf("UpdateLabels(%d,%v,%v)", i, L, pstr)
			tags["op:UpdateLabels"] = true
		case k < 40:
			i := r.intn(nItems)
			idx.DeleteLabels(i)
			delete(cur, i)
			opS = fmt.Sprintf("(OpDeleteLabels %d)", i)
			opH = fmt.Sprintf("DeleteLabels(%d)", i)
			tags["op:DeleteLabels"] = true
		case k < 58 || k == 201:
			p := r.intn(nParents)
			if k == 201 {
				p = nextPar % nParents
				nextPar++
			}
			var L map[string]string
			lab := "None"
			switch c := r.intn(10); {
			case c == 0 && k != 201: // nil map: uniquelabels.Make(nil) is the Nil Map
			case c == 1 && k != 201:
				L = map[string]string{}
				lab = "(Some " + coqLabels(L) + ")"
			default:
				L = genLabels(r, 3)
				if collide && (k == 201 || r.chance(85)) {
					L[ckey] = cvals[p] // every parent claims the contested label, each with its own value
				}
				lab = "(Some " + coqLabels(L) + ")"
			}
			idx.UpdateParentLabels(fmt.Sprintf("p%d", p), L)
			parentHas[p] = L
			opS = fmt.Sprintf("(OpUpdateParentLabels %d %s)", p, lab)
			opH = fmt.Sprintf("UpdateParentLabels(p%d,%v)", p, L)
			parentOp = true
			tags["op:UpdateParentLabels"] = true
		case k < 65:
			p := r.intn(nParents)
			idx.DeleteParentLabels(fmt.Sprintf("p%d", p))
			delete(parentHas, p)
			opS = fmt.Sprintf("(OpDeleteParentLabels %d)", p)
			opH = fmt.Sprintf("DeleteParentLabels(p%d)", p)
			parentOp = true
			tags["op:DeleteParentLabels"] = true
		case k < 92 || k == 200:
			s := r.intn(nSels)
			txt := r.pick(pool)
			if k == 200 {
				txt = pool[r.intn(4)] // one of the selectors that tell the contested values apart
			}
			sel := mustParse(txt)
			idx.UpdateSelector(s, sel)
			opS = fmt.Sprintf("(OpUpdateSelector %d %s)", s, coqAst(sel.Root()))
			opH = fmt.Sprintf("UpdateSelector(%d,%s)", s, sel.String())
			tags["op:UpdateSelector"] = true
		default:
			s := r.intn(nSels)
			idx.DeleteSelector(s)
			opS = fmt.Sprintf("(OpDeleteSelector %d)", s)
			opH = fmt.Sprintf("DeleteSelector(%d)", s)
			tags["op:DeleteSelector"] = true
		}
		if idx.VerifDirty() != 0 {
			panic("dirty items left after an operation")
		}
		for _, e := range events {
			if strings.HasPrefix(e, "Stop") {
				sawStop = true
			}
		}
		if parentOp && len(events) > 0 {
			sawParentEvent = true
		}
		evs := make([]string, len(events))
		for q, e := range events {
			evs[q] = "(" + e + ")"
		}
		bySel := sortedPairs(idx.VerifBySel())
		byItem := sortedPairs(idx.VerifByItem())
		ops = append(ops, opS)
		keyParts = append(keyParts, opS)
		outs = append(outs, fmt.Sprintf("{| o_events := %s; o_by_sel := %s; o_by_item := %s |}",
			strings.ReplaceAll(coqList("ev", evs), "]", "]%N"), coqPairs(bySel), coqPairs(byItem)))
		sample = append(sample, fmt.Sprintf("%s -> %v matches=%v", opH, evSample, bySel))
	}
	if sawStop {
		tags["idx:stop-seen"] = true
	}
	if sawParentEvent {
		tags["idx:parent-change-moves-match"] = true
	}
	if sawOverride {
		tags["idx:own-label-overrides-inherited"] = true
	}
	if sawDupParents {
		tags["idx:duplicate-parent-ids"] = true
	}
	if collide {
		tags["idx:contested-label"] = true
		tags[tags0] = true
	}
	if sawReorder {
		tags["idx:parents-only-update"] = true
	}
	if sawReorderMoves {
		tags["idx:parents-only-update-moves-match"] = true
	}
	tags["stream:idx"] = true
	return line{
		Coq:    "(CIdx " + coqList("op", ops) + " " + coqList("obs", outs) + ")%N",
		NT:     sawStop && sawParentEvent,
		Key:    "idx|" + strings.Join(keyParts, ";"),
		Sample: map[string]any{"stream": "idx", "trace": sample},
		Tags:   tagList(tags),
	}
}

func tagList(m map[string]bool) []string {
	var out []string
	for k := range m {
		out = append(out, k)
	}
	sort.Strings(out)
	return out
}

// ---------------------------------------------------------------- stream 2: LabelRestrictions

func restrCase(r *rng) line {
	txt := genSel(r, 1+r.intn(3))
	sameLabel := lastSameLabel
	sel := mustParse(txt)
	lr := sel.LabelRestrictions()
	rm, n := coqRmap(lr)
	var maps, evals []string
	anyTrue, anyFalse := false, false
	var ms []map[string]string
	for i := 0; i < 12; i++ {
		L := genLabels(r, 3)
		ms = append(ms, L)
		e := sel.Evaluate(L)
		if e {
			anyTrue = true
		} else {
			anyFalse = true
		}
		maps = append(maps, coqLabels(L))
		evals = append(evals, coqBool(e))
	}
	tags := map[string]bool{"stream:restr": true}
	if sameLabel {
		tags["restr:same-label-and-or"] = true
	}
	if n > 0 {
		tags["restr:non-empty"] = true
	} else {
		tags["restr:empty"] = true
	}
	for _, res := range lr.All() {
		if !res.PossibleToSatisfy() {
			tags["restr:impossible"] = true
		}
		if res.MustBeAbsent {
			tags["restr:must-be-absent"] = true
		}
		if res.MustHaveOneOfValues != nil {
			tags["restr:values"] = true
		}
	}
	return line{
		Coq:    fmt.Sprintf("(CRestr %s %s %s %s)", coqAst(sel.Root()), rm, coqList("labels", maps), coqList("bool", evals)) + "%N",
		NT:     n > 0 && anyTrue && anyFalse,
		Key:    "restr|" + sel.String() + "|" + strings.Join(maps, ""),
		Sample: map[string]any{"stream": "restr", "selector": sel.String(), "restrictions": lr.String(), "maps": ms, "evals": evals},
		Tags:   tagList(tags),
	}
}

// ---------------------------------------------------------------- stream 3: LabelRestrictionIndex

type labeled map[string]string

func (l labeled) AllOwnAndParentLabelHandles() iter.Seq2[uniquestr.Handle, uniquestr.Handle] {
	return func(yield func(uniquestr.Handle, uniquestr.Handle) bool) {
		for k, v := range l {
			if !yield(uniquestr.Make(k), uniquestr.Make(v)) {
				return
			}
		}
	}
}
func (l labeled) OwnLabelHandles() iter.Seq2[uniquestr.Handle, uniquestr.Handle] {
	return l.AllOwnAndParentLabelHandles()
}

func riCase(r *rng) line {
	idx := labelrestrictionindex.New[int]()
	nops := 10 + r.intn(25)
	var ops, outs, sample, keyParts []string
	tags := map[string]bool{"stream:ri": true}
	pruned, deleted := false, false
	live := map[int]bool{}
	for j := 0; j < nops; j++ {
		switch k := r.intn(100); {
		case k < 45:
			id := r.intn(6)
			sel := mustParse(genSel(r, r.intn(3)))
			idx.AddSelector(id, sel)
			live[id] = true
			ops = append(ops, fmt.Sprintf("(RiAdd %d %s)", id, coqAst(sel.Root())))
			sample = append(sample, fmt.Sprintf("Add(%d,%s)", id, sel.String()))
		case k < 58:
			id := r.intn(6)
			idx.DeleteSelector(id)
			if live[id] {
				deleted = true
			}
			delete(live, id)
			ops = append(ops, fmt.Sprintf("(RiDel %d)", id))
			sample = append(sample, fmt.Sprintf("Del(%d)", id))
		default:
			L := genLabels(r, 3)
			seen := map[int]bool{}
			for id, sel := range idx.AllPotentialMatches(labeled(L)) {
				if sel == nil {
					panic("AllPotentialMatches produced a nil selector")
				}
				seen[id] = true
			}
			var ids []int
			for id := range seen {
				ids = append(ids, id)
			}
			sort.Ints(ids)
			if len(ids) < len(live) {
				pruned = true
			}
			ops = append(ops, fmt.Sprintf("(RiQuery %s)", coqLabels(L)))
			outs = append(outs, coqNList(ids))
			sample = append(sample, fmt.Sprintf("Query(%v) -> %v", L, ids))
		}
		keyParts = append(keyParts, ops[len(ops)-1])
	}
	if pruned {
		tags["ri:pruned"] = true
	}
	if deleted {
		tags["ri:deleted-live-selector"] = true
	}
	return line{
		Coq:    "(CRi " + coqList("ri_op", ops) + " " + coqList("(list N)", outs) + ")%N",
		NT:     pruned && len(outs) > 0,
		Key:    "ri|" + strings.Join(keyParts, ";"),
		Sample: map[string]any{"stream": "ri", "trace": sample},
		Tags:   tagList(tags),
	}
}

// ---------------------------------------------------------------- stream 4: LabelNameValueIndex

func nvCase(r *rng) line {
	idx := labelnamevalueindex.New[int, labeled]("verif")
	nops := 10 + r.intn(25)
	var ops, outs, sample, keyParts []string
	tags := map[string]bool{"stream:nv": true}
	live := map[int]bool{}
	narrowed := false
	for j := 0; j < nops; j++ {
		switch k := r.intn(100); {
		case k < 40:
			id := r.intn(6)
			if live[id] {
				// callers remove before re-adding (Add panics on a duplicate id)
				idx.Remove(id)
				ops = append(ops, fmt.Sprintf("(NvRemove %d)", id))
				sample = append(sample, fmt.Sprintf("Remove(%d)", id))
			}
			L := genLabels(r, 3)
			idx.Add(id, labeled(L))
			live[id] = true
			ops = append(ops, fmt.Sprintf("(NvAdd %d %s)", id, coqLabels(L)))
			sample = append(sample, fmt.Sprintf("Add(%d,%v)", id, L))
		case k < 52:
			id := r.intn(6)
			if !live[id] {
				continue
			}
			idx.Remove(id)
			delete(live, id)
			ops = append(ops, fmt.Sprintf("(NvRemove %d)", id))
			sample = append(sample, fmt.Sprintf("Remove(%d)", id))
		default:
			// a restriction: usually one produced by a real selector, sometimes free-form
			label := r.pick(keys)
			var res parser.LabelRestriction
			if r.chance(70) {
				lr := mustParse(genSel(r, r.intn(3))).LabelRestrictions()
				var ks []string
				for k := range lr.All() {
					ks = append(ks, k.Value())
				}
				sort.Strings(ks)
				if len(ks) > 0 {
					label = r.pick(ks)
					res, _ = lr.Get(uniquestr.Make(label))
				}
			} else {
				res.MustBePresent = r.chance(80)
				res.MustBeAbsent = r.chance(10)
				if r.chance(60) {
					res.MustHaveOneOfValues = []uniquestr.Handle{}
					for q := r.intn(4); q > 0; q-- {
						res.MustHaveOneOfValues = append(res.MustHaveOneOfValues, uniquestr.Make(r.pick(vals)))
					}
				}
			}
			// StrategyFor must not see our slice mutated later; give it a copy
			cp := res
			if res.MustHaveOneOfValues != nil {
				cp.MustHaveOneOfValues = append([]uniquestr.Handle{}, res.MustHaveOneOfValues...)
			}
			st := idx.StrategyFor(uniquestr.Make(label), cp)
			var ids []int
			st.Scan(func(id int) bool { ids = append(ids, id); return true })
			sort.Ints(ids)
			if len(ids) < len(live) {
				narrowed = true
			}
			name := map[string]string{"full-scan": "SFull", "no-match": "SNoMatch", "label-name": "SLabelName",
				"single-value": "SSingle", "multi-value": "SMulti"}[st.Name()]
			if name == "" {
				panic("unknown strategy " + st.Name())
			}
			tags["nv:"+st.Name()] = true
			ops = append(ops, fmt.Sprintf("(NvQuery %s %s)", coqBytes(label), coqRestrUnsorted(res)))
			outs = append(outs, fmt.Sprintf("(%s, %s)", name, coqNList(ids)))
			sample = append(sample, fmt.Sprintf("StrategyFor(%s,%v) = %s -> %v", label, res, st.Name(), ids))
		}
		keyParts = append(keyParts, ops[len(ops)-1])
	}
	if narrowed {
		tags["nv:narrowed"] = true
	}
	return line{
		Coq:    "(CNv " + coqList("nv_op", ops) + " " + coqList("(strat * list N)", outs) + ")%N",
		NT:     narrowed && len(outs) > 0,
		Key:    "nv|" + strings.Join(keyParts, ";"),
		Sample: map[string]any{"stream": "nv", "trace": sample},
		Tags:   tagList(tags),
	}
}

// the restriction exactly as handed to StrategyFor (value order kept)
func coqRestrUnsorted(res parser.LabelRestriction) string {
	v := "None"
	if res.MustHaveOneOfValues != nil {
		v = "(Some " + coqBytesList(handles(res.MustHaveOneOfValues)) + ")"
	}
	return fmt.Sprintf("{| r_present := %s; r_absent := %s; r_vals := %s |}", coqBool(res.MustBePresent), coqBool(res.MustBeAbsent), v)
}

// ---------------------------------------------------------------- stream 5: iterEndpointCandidates (SelectorAndNamedPortIndex)

type npOp struct {
	kind string // ep, delep, par, delpar, query
	id   int
	L    map[string]string
	ps   []int
	sel  string
}

// runNp executes a history on a fresh real SelectorAndNamedPortIndex.  Returns the Coq ops, the per-query outputs and
// whether the implementation panicked.
func runNp(hist []npOp) (ops, outs, sample []string, narrowed bool, panicked string) {
	defer func() {
		if e := recover(); e != nil {
			panicked = fmt.Sprint(e)
		}
	}()
	idx := labelindex.NewSelectorAndNamedPortIndex(false)
	live := map[int]bool{}
	for _, o := range hist {
		switch o.kind {
		case "ep":
			pstr := make([]string, len(o.ps))
			for i, p := range o.ps {
				pstr[i] = fmt.Sprintf("p%d", p)
			}
			ops = append(ops, fmt.Sprintf("(NpEndpoint %d %s %s)", o.id, coqLabels(o.L), coqNList(o.ps)))
			sample = append(sample, fmt.Sprintf("UpdateEndpointOrSet(%d,%v,%v)", o.id, o.L, pstr))
			idx.UpdateEndpointOrSet(o.id, uniquelabels.Make(o.L), nil, nil, pstr)
			live[o.id] = true
		case "delep":
			ops = append(ops, fmt.Sprintf("(NpDelEndpoint %d)", o.id))
			sample = append(sample, fmt.Sprintf("DeleteEndpoint(%d)", o.id))
			idx.DeleteEndpoint(o.id)
			delete(live, o.id)
		case "par":
			ops = append(ops, fmt.Sprintf("(NpParent %d %s)", o.id, coqLabels(o.L)))
			sample = append(sample, fmt.Sprintf("UpdateParentLabels(p%d,%v)", o.id, o.L))
			idx.UpdateParentLabels(fmt.Sprintf("p%d", o.id), o.L)
		case "delpar":
			ops = append(ops, fmt.Sprintf("(NpDelParent %d)", o.id))
			sample = append(sample, fmt.Sprintf("DeleteParentLabels(p%d)", o.id))
			idx.DeleteParentLabels(fmt.Sprintf("p%d", o.id))
		case "query":
			sel := mustParse(o.sel)
			ops = append(ops, fmt.Sprintf("(NpQuery %s)", coqAst(sel.Root())))
			idx.UpdateIPSet("q", sel, ipsetmember.ProtocolNone, "")
			var ids []int
			for _, id := range idx.VerifIterCandidates("q") {
				ids = append(ids, id.(int))
			}
			idx.DeleteIPSet("q")
			sort.Ints(ids)
			if len(ids) < len(live) {
				narrowed = true
			}
			outs = append(outs, coqNList(ids))
			sample = append(sample, fmt.Sprintf("candidates(%s) -> %v of %d endpoints", sel.String(), ids, len(live)))
		}
	}
	return
}

func npLine(hist []npOp, extraTags ...string) line {
	ops, outs, sample, narrowed, panicked := runNp(hist)
	tags := map[string]bool{"stream:np": true}
	for _, t := range extraTags {
		tags[t] = true
	}
	if narrowed {
		tags["np:narrowed"] = true
	}
	key := "np|" + strings.Join(ops, ";")
	if panicked != "" {
		// a valid history made the index panic: reported through the CCrash case (its oracle is `false`)
		tags["np:panic"] = true
		sample = append(sample, "PANIC: "+panicked)
		return line{Coq: "(CCrash " + coqList("np_op", ops) + ")%N", NT: true, Key: key,
			Sample: map[string]any{"stream": "np", "trace": sample}, Tags: tagList(tags)}
	}
	return line{Coq: "(CNp " + coqList("np_op", ops) + " " + coqList("(list N)", outs) + ")%N", NT: narrowed && len(outs) > 0,
		Key: key, Sample: map[string]any{"stream": "np", "trace": sample}, Tags: tagList(tags)}
}

// directed scenario: an endpoint that names the same parent twice, then goes away
func npDupParentCase() line {
	return npLine([]npOp{
		{kind: "par", id: 0, L: map[string]string{"b": "y"}},
		{kind: "ep", id: 0, L: map[string]string{"a": "x"}, ps: []int{0, 0}},
		{kind: "query", sel: `a == "x" && b == "y"`},
		{kind: "delep", id: 0},
		{kind: "query", sel: `a == "x"`},
	}, "np:duplicate-parent-ids")
}

func npCase(r *rng) line {
	nEps, nPars := 3+r.intn(3), 1+r.intn(3)
	nops := 10 + r.intn(22)
	var hist []npOp
	for j := 0; j < nops; j++ {
		switch k := r.intn(100); {
		case k < 30:
			// own labels on a subset of the keys so that inheritance matters
			L := genLabels(r, 1+r.intn(3))
			var ps []int
			seen := map[int]bool{}
			for q := r.intn(3); q > 0; q-- {
				p := r.intn(nPars)
				if !seen[p] { // duplicate parent ids are exercised by the directed scenario only
					seen[p] = true
					ps = append(ps, p)
				}
			}
			hist = append(hist, npOp{kind: "ep", id: r.intn(nEps), L: L, ps: ps})
		case k < 37:
			hist = append(hist, npOp{kind: "delep", id: r.intn(nEps)})
		case k < 52:
			L := genLabels(r, 3)
			if len(L) == 0 {
				L = map[string]string{r.pick(keys): r.pick(vals)}
			}
			hist = append(hist, npOp{kind: "par", id: r.intn(nPars), L: L})
		case k < 58:
			hist = append(hist, npOp{kind: "delpar", id: r.intn(nPars)})
		default:
			hist = append(hist, npOp{kind: "query", sel: genSel(r, r.intn(3))})
		}
	}
	return npLine(hist)
}

// safe turns a panic of the code under test into a failing case (CPanic: its oracle is `false`) instead of killing the driver.
func safe(stream string, seed uint64, i int, f func() line) (l line) {
	defer func() {
		if e := recover(); e != nil {
			l = line{Coq: "(CPanic " + coqBytes(stream) + ")%N", NT: true,
				Key:    fmt.Sprintf("%s|panic|%d|%d", stream, seed, i),
				Sample: map[string]any{"stream": stream, "panic": fmt.Sprint(e), "reproduce": fmt.Sprintf("driver -seed %d, case #%d", seed, i)},
				Tags:   []string{"panic:" + stream, "stream:" + stream}}
		}
	}()
	return f()
}

func main() {
	n := flag.Int("n", 100, "cases")
	seed := flag.Uint64("seed", 1, "seed")
	only := flag.Int("only", -1, "print only the case with this index (replay)")
	flag.Parse()
	logrus.SetLevel(logrus.PanicLevel)
	r := &rng{s: *seed}
	enc := json.NewEncoder(os.Stdout)
	for i := 0; i < *n; i++ {
		var l line
		switch k := i % 20; {
		case i == 19:
			l = npDupParentCase()
		case k < 8:
			l = safe("idx", *seed, i, func() line { return idxCase(r) })
		case k < 12:
			l = safe("restr", *seed, i, func() line { return restrCase(r) })
		case k < 14:
			l = safe("ri", *seed, i, func() line { return riCase(r) })
		case k < 16:
			l = safe("nv", *seed, i, func() line { return nvCase(r) })
		default:
			l = npCase(r)
		}
		if l.Sample == nil {
			l.Sample = map[string]any{}
		}
		l.Sample["seed"] = *seed
		l.Sample["index"] = i
		if *only < 0 || *only == i {
			_ = enc.Encode(l)
		}
	}
}
