//go:build verif

// C30 correspondence driver: runs the real Windows policysets.PolicySets (AddOrReplacePolicySet +
// GetPolicySetRules, and protoRuleToHnsRules through a verif shim for small chunk sizes) with a fake HNS API
// and a fake IP-set cache on generated policies / tier layouts / IP sets, and prints one JSON line per case
// carrying the inputs, the produced HNS ACL rules and generated connections as a Coq term.
package main

import (
	"encoding/json"
	"flag"
	"fmt"
	"io"
	"math/big"
	"net"
	"os"
	"strconv"
	"strings"

	log "github.com/sirupsen/logrus"

	windataplane "github.com/projectcalico/calico/felix/dataplane/windows"
	winipsets "github.com/projectcalico/calico/felix/dataplane/windows/ipsets"
	felixipsets "github.com/projectcalico/calico/felix/ipsets"
	"github.com/projectcalico/calico/felix/dataplane/windows/hns"
	"github.com/projectcalico/calico/felix/dataplane/windows/policysets"
	"github.com/projectcalico/calico/felix/proto"
)

// ---------------------------------------------------------------- rng
type rng struct{ s uint64 }

func (r *rng) next() uint64 {
	r.s += 0x9e3779b97f4a7c15
	z := r.s
	z = (z ^ (z >> 30)) * 0xbf58476d1ce4e5b9
	z = (z ^ (z >> 27)) * 0x94d049bb133111eb
	return z ^ (z >> 31)
}
func (r *rng) intn(n int) int   { return int(r.next() % uint64(n)) }
func (r *rng) chance(p int) bool { return r.intn(100) < p }

// ---------------------------------------------------------------- fakes
type fakeHNS struct{ f hns.HNSSupportedFeatures }

func (h *fakeHNS) GetHNSSupportedFeatures() hns.HNSSupportedFeatures { return h.f }
func (h *fakeHNS) HNSListEndpointRequest() ([]hns.HNSEndpoint, error) {
	return []hns.HNSEndpoint{{Id: "hns-ep-1", Name: "pod", VirtualNetworkName: "Calico-net", IPAddress: net.ParseIP("10.65.0.2"), State: hns.Attached},
		{Id: "hns-ep-remote", Name: "other", VirtualNetworkName: "Calico-net", IPAddress: net.ParseIP("10.65.0.3"), State: hns.Attached, IsRemoteEndpoint: true}}, nil
}

type fakeIPSets struct{ sets map[string][]string }

// same contract as windows/ipsets.IPSets.GetIPSetMembers: nil for unknown or empty
func (c *fakeIPSets) GetIPSetMembers(id string) []string {
	if len(c.sets[id]) == 0 {
		return nil
	}
	return c.sets[id]
}

type noStatic struct{}

func (noStatic) ReadData() ([]byte, error) { return nil, policysets.ErrNoRuleSpecified }

// ---------------------------------------------------------------- data
type gcidr struct {
	v6   bool
	addr uint32
	big  string // numeric value for v6
	plen int
	text string
}

func (c gcidr) coq() string {
	if c.v6 {
		return fmt.Sprintf("(C6 %s %d)", c.big, c.plen)
	}
	return fmt.Sprintf("(C4 %d %d)", c.addr, c.plen)
}

func ip4(a uint32) string { return fmt.Sprintf("%d.%d.%d.%d", a>>24, (a>>16)&255, (a>>8)&255, a&255) }

func mask(a uint32, l int) uint32 {
	if l == 0 {
		return 0
	}
	return a &^ (uint32(1)<<(32-uint(l)) - 1)
}

var lens = []int{32, 32, 32, 32, 31, 30, 28, 25, 24, 24, 24, 23, 22, 16, 16, 15, 8, 0}

func uniAddr(r *rng) uint32 {
	return 10<<24 | uint32(r.intn(2))<<16 | uint32(r.intn(4))<<8 | uint32(r.intn(256))
}

func genCIDR4(r *rng) gcidr {
	a := uniAddr(r)
	l := lens[r.intn(len(lens))]
	if !r.chance(25) {
		a = mask(a, l) // mostly normalised, sometimes with host bits set
	}
	c := gcidr{addr: a, plen: l}
	if l == 32 && r.chance(50) {
		c.text = ip4(a)
	} else {
		c.text = fmt.Sprintf("%s/%d", ip4(a), l)
	}
	return c
}

var v6pool = []string{"fd00::/8", "fe80::1/128", "2001:db8::/32", "::/0"}

func genCIDR6(r *rng) gcidr {
	t := v6pool[r.intn(len(v6pool))]
	_, n, err := net.ParseCIDR(t)
	if err != nil {
		panic(err)
	}
	ip, _, _ := net.ParseCIDR(t)
	l, _ := n.Mask.Size()
	return gcidr{v6: true, big: new(big.Int).SetBytes(ip.To16()).String(), plen: l, text: t}
}

type ipportMember struct {
	addr  uint32
	proto string
	port  int
}

var protoNum = map[string]int{"tcp": 6, "udp": 17, "sctp": 132, "icmp": 1, "icmpv6": 58, "udplite": 136}
var protoNames = []string{"tcp", "udp", "sctp", "icmp", "udplite"}

type world struct {
	netSets    map[int][]gcidr // id -> members (absent key = unknown set)
	ipportSets map[int][]ipportMember
	cache      *fakeIPSets
}

func setName(id int) string { return fmt.Sprintf("set-%d", id) }

func genWorld(r *rng, big bool) *world {
	w := &world{netSets: map[int][]gcidr{}, ipportSets: map[int][]ipportMember{}, cache: &fakeIPSets{sets: map[string][]string{}}}
	for id := 1; id <= 3; id++ {
		n := r.intn(6)
		if id == 3 && r.chance(40) {
			n = 0
		}
		if id == 1 && n == 0 {
			n = 2
		}
		if big && id == 1 {
			n = 4001 + r.intn(3)
		}
		var ms []gcidr
		for i := 0; i < n; i++ {
			var c gcidr
			if big {
				a := 11<<24 | uint32(i)
				c = gcidr{addr: a, plen: 32, text: ip4(a)}
			} else if r.chance(70) {
				a := uniAddr(r)
				c = gcidr{addr: a, plen: 32, text: ip4(a)}
			} else {
				c = genCIDR4(r)
			}
			ms = append(ms, c)
		}
		w.netSets[id] = ms
		var ss []string
		for _, c := range ms {
			ss = append(ss, c.text)
		}
		w.cache.sets[setName(id)] = ss
	}
	// id 4 is never defined
	for id := 10; id <= 11; id++ {
		n := r.intn(6)
		if id == 10 && n == 0 {
			n = 3
		}
		var ms []ipportMember
		var ss []string
		for i := 0; i < n; i++ {
			m := ipportMember{addr: uniAddr(r), proto: []string{"tcp", "udp", "tcp", "sctp"}[r.intn(4)], port: []int{80, 443, 53, 8080}[r.intn(4)]}
			ms = append(ms, m)
			ss = append(ss, fmt.Sprintf("%s,%s:%d", ip4(m.addr), m.proto, m.port))
		}
		w.ipportSets[id] = ms
		w.cache.sets[setName(id)] = ss
	}
	return w
}

func (w *world) coq() string {
	var parts []string
	for id := 1; id <= 3; id++ {
		var ms []string
		for _, c := range w.netSets[id] {
			ms = append(ms, c.coq())
		}
		parts = append(parts, fmt.Sprintf("(%d, SetNets [%s])", id, strings.Join(ms, ";")))
	}
	for id := 10; id <= 11; id++ {
		var ms []string
		for _, m := range w.ipportSets[id] {
			ms = append(ms, fmt.Sprintf("(C4 %d 32, %d, %d)", m.addr, protoNum[m.proto], m.port))
		}
		parts = append(parts, fmt.Sprintf("(%d, SetIPPorts [%s])", id, strings.Join(ms, ";")))
	}
	return "[" + strings.Join(parts, ";") + "]"
}

type icmpM struct {
	present bool
	code    bool
	t, c    int
}

type grule struct {
	action     string // allow deny pass log
	actionText string
	ipver      int
	proto      int // -1 none
	protoName  string
	srcNets    []gcidr
	dstNets    []gcidr
	srcPorts   [][2]int
	dstPorts   [][2]int
	srcSets    []int
	dstSets    []int
	ipportSets []int
	// unsupported criteria
	srcNamed, dstNamed       []int
	icmp, notIcmp            icmpM
	notProto                 int // -1 none
	notSrcNets, notDstNets   []gcidr
	notSrcPorts, notDstPorts [][2]int
	notSrcSets, notDstSets   []int
	notSrcNamed, notDstNamed []int
}

func (g *grule) unsupported() bool {
	return len(g.srcNamed)+len(g.dstNamed)+len(g.notSrcNets)+len(g.notDstNets)+len(g.notSrcPorts)+len(g.notDstPorts)+
		len(g.notSrcSets)+len(g.notDstSets)+len(g.notSrcNamed)+len(g.notDstNamed) > 0 || g.icmp.present || g.notIcmp.present || g.notProto >= 0
}

func genPorts(r *rng, max int) [][2]int {
	n := r.intn(max + 1)
	var out [][2]int
	for i := 0; i < n; i++ {
		base := []int{80, 443, 53, 8080, 1000, 1, 65535, 30000}[r.intn(8)]
		if r.chance(50) || base == 65535 {
			out = append(out, [2]int{base, base})
		} else {
			out = append(out, [2]int{base, base + 1 + r.intn(20)})
		}
	}
	return out
}

func genNets(r *rng, max int, v6pct int) []gcidr {
	n := r.intn(max + 1)
	var out []gcidr
	for i := 0; i < n; i++ {
		if r.chance(v6pct) {
			out = append(out, genCIDR6(r))
		} else {
			out = append(out, genCIDR4(r))
		}
	}
	return out
}

var actionTexts = map[string][]string{
	"allow": {"allow", "Allow", "", "ALLOW"},
	"deny":  {"deny", "Deny"},
	"pass":  {"pass", "Pass", "next-tier"},
	"log":   {"log", "Log"},
}

// a rule using supported criteria only. rich = more list entries (chunking stream)
func genRule(r *rng, inbound bool, rich bool, isProfile bool) *grule {
	g := &grule{proto: -1, notProto: -1}
	switch k := r.intn(20); {
	case k < 8:
		g.action = "allow"
	case k < 14:
		g.action = "deny"
	case k < 18:
		g.action = "pass"
	default:
		g.action = "log"
	}
	if rich && g.action == "log" && r.chance(80) {
		g.action = "deny"
	}
	if isProfile && g.action == "pass" {
		g.action = "allow"
	}
	at := actionTexts[g.action]
	g.actionText = at[r.intn(len(at))]
	switch k := r.intn(20); {
	case k < 3:
		g.ipver = 4
	case k < 4:
		g.ipver = 6
	}
	// services rule (egress only), on its own
	if !inbound && r.chance(12) {
		g.ipportSets = []int{[]int{10, 10, 11, 12}[r.intn(4)]}
		return g
	}
	maxL := 2
	if rich {
		maxL = 5
	}
	if r.chance(60) {
		if r.chance(75) {
			g.protoName = []string{"tcp", "udp", "sctp"}[r.intn(3)]
			if r.chance(30) {
				g.protoName = strings.ToUpper(g.protoName)
			}
			g.proto = protoNum[strings.ToLower(g.protoName)]
			if r.chance(40) {
				g.protoName = "" // sent as a number
			}
			if r.chance(50) {
				g.srcPorts = genPorts(r, maxL)
			}
			if r.chance(60) {
				g.dstPorts = genPorts(r, maxL)
			}
		} else {
			if r.chance(50) {
				g.protoName = []string{"icmp", "udplite", "UDPLite", "ICMP"}[r.intn(4)]
				g.proto = protoNum[strings.ToLower(g.protoName)]
			} else {
				g.proto = []int{1, 47, 50, 4, 255}[r.intn(5)]
			}
		}
	}
	if r.chance(50) {
		g.srcNets = genNets(r, maxL, 8)
	}
	if r.chance(50) {
		g.dstNets = genNets(r, maxL, 8)
	}
	if r.chance(35) {
		g.srcSets = []int{[]int{1, 2, 3, 1, 2, 4}[r.intn(6)]}
	}
	if r.chance(35) {
		g.dstSets = []int{[]int{1, 2, 3, 1, 2, 4}[r.intn(6)]}
	}
	return g
}

// add one or more criteria outside the domain
func makeUnsupported(r *rng, g *grule, inbound bool) string {
	switch r.intn(14) {
	case 0:
		g.notSrcNets = []gcidr{genCIDR4(r)}
		return "notnet"
	case 1:
		g.notDstNets = []gcidr{genCIDR4(r)}
		return "notnet"
	case 2:
		g.notSrcPorts = [][2]int{{80, 80}}
		return "notports"
	case 3:
		g.notDstPorts = [][2]int{{80, 90}}
		return "notports"
	case 4:
		g.notSrcSets = []int{1}
		return "notipset"
	case 5:
		g.notDstSets = []int{2}
		return "notipset"
	case 6:
		g.notProto = 6
		return "notproto"
	case 7:
		g.icmp = icmpM{present: true, code: r.chance(50), t: 8, c: 0}
		g.proto, g.protoName = 1, "icmp"
		return "icmp"
	case 8:
		g.notIcmp = icmpM{present: true, code: r.chance(50), t: 8, c: 0}
		return "noticmp"
	case 9:
		if r.chance(50) {
			g.srcNamed = []int{20}
		} else {
			g.dstNamed = []int{21}
		}
		return "namedport"
	case 10:
		if r.chance(50) {
			g.notSrcNamed = []int{20}
		} else {
			g.notDstNamed = []int{21}
		}
		return "notnamedport"
	case 11:
		// two IP-set ids on one side: outside the domain (the implementation unions them)
		if len(g.ipportSets) > 0 {
			g.ipportSets = []int{10, 11}
		} else if r.chance(50) {
			g.srcSets = []int{1, 2}
		} else {
			g.dstSets = []int{2, 1}
		}
		return "two-set-ids"
	default:
		// services rule with further criteria (the code comment says the API forbids it)
		if inbound {
			g.notProto = 17
			return "notproto"
		}
		g.ipportSets = []int{10}
		switch r.intn(3) {
		case 0:
			g.proto, g.protoName = 6, "tcp"
		case 1:
			g.srcNets = []gcidr{genCIDR4(r)}
		default:
			g.srcSets = []int{1}
		}
		return "services-plus"
	}
}

func strs(cs []gcidr) []string {
	var out []string
	for _, c := range cs {
		out = append(out, c.text)
	}
	return out
}
func setIDs(ids []int) []string {
	var out []string
	for _, i := range ids {
		out = append(out, setName(i))
	}
	return out
}
func portRanges(ps [][2]int) []*proto.PortRange {
	var out []*proto.PortRange
	for _, p := range ps {
		out = append(out, &proto.PortRange{First: int32(p[0]), Last: int32(p[1])})
	}
	return out
}
func mkProto(num int, name string) *proto.Protocol {
	if num < 0 {
		return nil
	}
	if name != "" {
		return &proto.Protocol{NumberOrName: &proto.Protocol_Name{Name: name}}
	}
	return &proto.Protocol{NumberOrName: &proto.Protocol_Number{Number: int32(num)}}
}

func (g *grule) toProto(id string) *proto.Rule {
	pr := &proto.Rule{
		Action: g.actionText, IpVersion: proto.IPVersion(g.ipver), Protocol: mkProto(g.proto, g.protoName),
		SrcNet: strs(g.srcNets), DstNet: strs(g.dstNets), SrcPorts: portRanges(g.srcPorts), DstPorts: portRanges(g.dstPorts),
		SrcIpSetIds: setIDs(g.srcSets), DstIpSetIds: setIDs(g.dstSets), DstIpPortSetIds: setIDs(g.ipportSets),
		SrcNamedPortIpSetIds: setIDs(g.srcNamed), DstNamedPortIpSetIds: setIDs(g.dstNamed),
		NotProtocol: mkProto(g.notProto, ""), NotSrcNet: strs(g.notSrcNets), NotDstNet: strs(g.notDstNets),
		NotSrcPorts: portRanges(g.notSrcPorts), NotDstPorts: portRanges(g.notDstPorts),
		NotSrcIpSetIds: setIDs(g.notSrcSets), NotDstIpSetIds: setIDs(g.notDstSets),
		NotSrcNamedPortIpSetIds: setIDs(g.notSrcNamed), NotDstNamedPortIpSetIds: setIDs(g.notDstNamed),
		RuleId: id,
	}
	if g.icmp.present {
		if g.icmp.code {
			pr.Icmp = &proto.Rule_IcmpTypeCode{IcmpTypeCode: &proto.IcmpTypeAndCode{Type: int32(g.icmp.t), Code: int32(g.icmp.c)}}
		} else {
			pr.Icmp = &proto.Rule_IcmpType{IcmpType: int32(g.icmp.t)}
		}
	}
	if g.notIcmp.present {
		if g.notIcmp.code {
			pr.NotIcmp = &proto.Rule_NotIcmpTypeCode{NotIcmpTypeCode: &proto.IcmpTypeAndCode{Type: int32(g.notIcmp.t), Code: int32(g.notIcmp.c)}}
		} else {
			pr.NotIcmp = &proto.Rule_NotIcmpType{NotIcmpType: int32(g.notIcmp.t)}
		}
	}
	return pr
}

func coqCidrs(cs []gcidr) string {
	var out []string
	for _, c := range cs {
		out = append(out, c.coq())
	}
	return "[" + strings.Join(out, ";") + "]"
}
func coqPorts(ps [][2]int) string {
	var out []string
	for _, p := range ps {
		out = append(out, fmt.Sprintf("(%d,%d)", p[0], p[1]))
	}
	return "[" + strings.Join(out, ";") + "]"
}
func coqInts(is []int) string {
	var out []string
	for _, i := range is {
		out = append(out, strconv.Itoa(i))
	}
	return "[" + strings.Join(out, ";") + "]"
}
func coqOptN(n int) string {
	if n < 0 {
		return "None"
	}
	return fmt.Sprintf("(Some %d)", n)
}
func coqIcmp(m icmpM) string {
	if !m.present {
		return "None"
	}
	if m.code {
		return fmt.Sprintf("(Some (IcmpTypeCode %d %d))", m.t, m.c)
	}
	return fmt.Sprintf("(Some (IcmpType %d))", m.t)
}

func (g *grule) coq() string {
	act := map[string]string{"allow": "Allow", "deny": "Deny", "pass": "Pass", "log": "Log"}[g.action]
	ver := "None"
	if g.ipver == 4 {
		ver = "(Some V4)"
	} else if g.ipver == 6 {
		ver = "(Some V6)"
	}
	if !g.unsupported() {
		return fmt.Sprintf("(RS %s %s %s %s %s %s %s %s %s %s)", act, ver, coqOptN(g.proto), coqCidrs(g.srcNets), coqPorts(g.srcPorts),
			coqCidrs(g.dstNets), coqPorts(g.dstPorts), coqInts(g.srcSets), coqInts(g.dstSets), coqInts(g.ipportSets))
	}
	return fmt.Sprintf("(Build_rule %s %s %s %s %s %s %s %s %s %s %s %s %s %s %s %s %s %s %s %s %s %s %s)", act, ver, coqOptN(g.proto),
		coqCidrs(g.srcNets), coqPorts(g.srcPorts), coqInts(g.srcNamed), coqCidrs(g.dstNets), coqPorts(g.dstPorts), coqInts(g.dstNamed),
		coqIcmp(g.icmp), coqInts(g.srcSets), coqInts(g.dstSets), coqInts(g.ipportSets),
		coqOptN(g.notProto), coqCidrs(g.notSrcNets), coqPorts(g.notSrcPorts), coqCidrs(g.notDstNets), coqPorts(g.notDstPorts),
		coqIcmp(g.notIcmp), coqInts(g.notSrcSets), coqInts(g.notDstSets), coqInts(g.notSrcNamed), coqInts(g.notDstNamed))
}

// ---------------------------------------------------------------- implementation output
type prule struct {
	host           bool
	prio           int
	in             bool
	act            string
	proto          int
	laddrs, raddrs []gcidr
	lports, rports [][2]int
}

func parseAddrs(s string) []gcidr {
	if s == "" {
		return nil
	}
	var out []gcidr
	for _, t := range strings.Split(s, ",") {
		l := 32
		a := t
		if i := strings.Index(t, "/"); i >= 0 {
			a = t[:i]
			var err error
			l, err = strconv.Atoi(t[i+1:])
			if err != nil {
				panic("bad cidr in HNS rule: " + t)
			}
		}
		ip := net.ParseIP(a).To4()
		if ip == nil {
			panic("bad address in HNS rule: " + t)
		}
		out = append(out, gcidr{addr: uint32(ip[0])<<24 | uint32(ip[1])<<16 | uint32(ip[2])<<8 | uint32(ip[3]), plen: l, text: t})
	}
	return out
}
func parsePorts(s string) [][2]int {
	if s == "" {
		return nil
	}
	var out [][2]int
	for _, t := range strings.Split(s, ",") {
		if i := strings.Index(t, "-"); i >= 0 {
			a, e1 := strconv.Atoi(t[:i])
			b, e2 := strconv.Atoi(t[i+1:])
			if e1 != nil || e2 != nil {
				panic("bad port range in HNS rule: " + t)
			}
			out = append(out, [2]int{a, b})
		} else {
			a, e := strconv.Atoi(t)
			if e != nil {
				panic("bad port in HNS rule: " + t)
			}
			out = append(out, [2]int{a, a})
		}
	}
	return out
}

func parseRule(p *hns.ACLPolicy) prule {
	if p.Type != hns.ACL || (p.RuleType != hns.Switch && p.RuleType != hns.Host) || p.Protocols != "" || p.LocalPort != 0 || p.RemotePort != 0 || p.InternalPort != 0 || p.ServiceName != "" {
		panic(fmt.Sprintf("HNS rule uses fields outside the model: %+v", *p))
	}
	act := map[hns.ActionType]string{hns.Allow: "HAllow", hns.Block: "HBlock", policysets.ActionPass: "HPass"}[p.Action]
	if act == "" {
		panic("unknown HNS action " + string(p.Action))
	}
	if p.Direction != hns.In && p.Direction != hns.Out {
		panic("unknown direction")
	}
	return prule{host: p.RuleType == hns.Host, prio: int(p.Priority), in: p.Direction == hns.In, act: act, proto: int(p.Protocol),
		laddrs: parseAddrs(p.LocalAddresses), raddrs: parseAddrs(p.RemoteAddresses), lports: parsePorts(p.LocalPorts), rports: parsePorts(p.RemotePorts)}
}

func (p prule) coq() string {
	d := "HOut"
	if p.in {
		d = "HIn"
	}
	return fmt.Sprintf("(mkH %d %s %s %d %s %s %s %s)", p.prio, d, p.act, p.proto, coqCidrs(p.laddrs), coqCidrs(p.raddrs), coqPorts(p.lports), coqPorts(p.rports))
}

func coqRules(ps []prule) string {
	var out []string
	for _, p := range ps {
		out = append(out, p.coq())
	}
	return "[" + strings.Join(out, ";") + "]"
}

type pkt struct {
	proto      int
	src, dst   uint32
	sport, dpt int
}

func (p pkt) coq() string {
	return fmt.Sprintf("(PK %d %d %d %d %d)", p.proto, p.src, p.dst, p.sport, p.dpt)
}

func inCidr(c gcidr, a uint32) bool { return !c.v6 && mask(a, c.plen) == mask(c.addr, c.plen) }
func addrsOK(cs []gcidr, a uint32) bool {
	if len(cs) == 0 {
		return true
	}
	for _, c := range cs {
		if inCidr(c, a) {
			return true
		}
	}
	return false
}
func portsOK(ps [][2]int, p int) bool {
	if len(ps) == 0 {
		return true
	}
	for _, r := range ps {
		if r[0] <= p && p <= r[1] {
			return true
		}
	}
	return false
}
func (h prule) matches(inbound bool, p pkt) bool {
	la, lp, ra, rp := p.src, p.sport, p.dst, p.dpt
	if inbound {
		la, lp, ra, rp = p.dst, p.dpt, p.src, p.sport
	}
	return h.in == inbound && (h.proto == 256 || h.proto == p.proto) && addrsOK(h.laddrs, la) && addrsOK(h.raddrs, ra) && portsOK(h.lports, lp) && portsOK(h.rports, rp)
}

// connections aimed at the rules' own boundaries
func genPackets(r *rng, w *world, rules []*grule, n int) []pkt {
	var addrs []uint32
	var ports []int
	addCidr := func(c gcidr) {
		if c.v6 {
			return
		}
		base := mask(c.addr, c.plen)
		addrs = append(addrs, base)
		if c.plen < 32 {
			span := uint32(1)<<(32-uint(c.plen)) - 1
			if c.plen == 0 {
				span = 0xffffffff
			}
			addrs = append(addrs, base+uint32(r.next())&span, base+span)
			if c.plen > 0 {
				addrs = append(addrs, base+span+1, base-1)
			}
		} else {
			addrs = append(addrs, base+1)
		}
	}
	for _, g := range rules {
		for _, c := range g.srcNets {
			addCidr(c)
		}
		for _, c := range g.dstNets {
			addCidr(c)
		}
		for _, p := range append(append([][2]int{}, g.srcPorts...), g.dstPorts...) {
			ports = append(ports, p[0], p[1], p[0]-1, p[1]+1)
		}
	}
	for id := 1; id <= 3; id++ {
		ms := w.netSets[id]
		for i, c := range ms {
			if i < 6 {
				addCidr(c)
			}
		}
	}
	var ipp []ipportMember
	for id := 10; id <= 11; id++ {
		ipp = append(ipp, w.ipportSets[id]...)
	}
	pickA := func() uint32 {
		if len(addrs) > 0 && r.chance(80) {
			return addrs[r.intn(len(addrs))]
		}
		return uniAddr(r)
	}
	pickP := func() int {
		if len(ports) > 0 && r.chance(75) {
			p := ports[r.intn(len(ports))]
			if p < 0 {
				p = 0
			}
			if p > 65535 {
				p = 65535
			}
			return p
		}
		return []int{80, 443, 53, 8080, 0, 12345}[r.intn(6)]
	}
	var out []pkt
	for i := 0; i < n; i++ {
		p := pkt{proto: []int{6, 6, 17, 17, 132, 1, 136, 47}[r.intn(8)], src: pickA(), dst: pickA(), sport: pickP(), dpt: pickP()}
		if len(ipp) > 0 && r.chance(30) {
			m := ipp[r.intn(len(ipp))]
			p.dst, p.proto, p.dpt = m.addr, protoNum[m.proto], m.port
			if r.chance(25) {
				p.proto = []int{6, 17}[r.intn(2)]
			}
			if r.chance(15) {
				p.dpt = []int{80, 443, 53}[r.intn(3)]
			}
		}
		if p.proto == 1 || p.proto == 47 {
			p.sport, p.dpt = 0, 0
		}
		out = append(out, p)
	}
	return out
}

func coqPkts(ps []pkt) string {
	var out []string
	for _, p := range ps {
		out = append(out, p.coq())
	}
	return "[" + strings.Join(out, ";") + "]"
}

type line struct {
	Coq    string         `json:"coq"`
	NT     bool           `json:"nt"`
	Key    string         `json:"key"`
	Sample map[string]any `json:"sample,omitempty"`
	Tags   []string       `json:"tags"`
}

func coqBool(b bool) string {
	if b {
		return "true"
	}
	return "false"
}

func newPS(w *world, r *rng) *policysets.PolicySets {
	h := &fakeHNS{}
	h.f.Acl.AclRuleId = r.chance(50)
	h.f.Acl.AclNoHostRulePriority = r.chance(50)
	return policysets.NewPolicySets(h, []policysets.IPSetCache{w.cache}, noStatic{})
}

type gpol struct {
	present   bool
	in, out   []*grule
	isProfile bool
}

func coqRuleList(gs []*grule) string {
	var out []string
	for _, g := range gs {
		out = append(out, g.coq())
	}
	return "[" + strings.Join(out, ";") + "]"
}

// one tier (or profile list) through AddOrReplacePolicySet + GetPolicySetRules
func tierCase(r *rng, kind string) line {
	big := kind == "big"
	w := genWorld(r, big)
	ps := newPS(w, r)
	inbound := r.chance(50)
	profiles := r.chance(20)
	eot := r.chance(60) || profiles
	npol := 1 + r.intn(4)
	tags := []string{"kind:" + kind}
	var pols []*gpol
	var all []*grule
	var ids []string
	unsupTag := ""
	for i := 0; i < npol; i++ {
		p := &gpol{present: true, isProfile: profiles}
		if kind == "staged" && !profiles && (r.chance(40) || (i == npol-1 && !hasAbsent(pols))) {
			p.present = false
		}
		for d := 0; d < 2; d++ {
			n := r.intn(5)
			if big {
				n = 1 + r.intn(2)
			}
			for j := 0; j < n; j++ {
				g := genRule(r, d == 0, false, profiles)
				if big && j == 0 {
					g.ipportSets = nil
					if d == 0 {
						g.srcSets = []int{1}
						g.srcNets = nil
					} else {
						g.dstSets = []int{1}
						g.dstNets = nil
					}
				}
				if kind == "unsupported" && r.chance(35) {
					unsupTag = makeUnsupported(r, g, d == 0)
					tags = append(tags, "unsupported:"+unsupTag)
				}
				if d == 0 {
					p.in = append(p.in, g)
				} else {
					p.out = append(p.out, g)
				}
			}
		}
		pols = append(pols, p)
		id := fmt.Sprintf("policy-%d", i)
		if profiles {
			id = fmt.Sprintf("profile-%d", i)
		}
		ids = append(ids, id)
		if inbound {
			all = append(all, p.in...)
		} else {
			all = append(all, p.out...)
		}
	}
	// the policy manager adds the enforced policies (in a shuffled order: the store is a map), replacing one of
	// them with its final content after a first, different version
	order := r.perm(npol)
	for _, i := range order {
		p := pols[i]
		if !p.present {
			continue
		}
		if r.chance(20) {
			ps.AddOrReplacePolicySet(ids[i], &proto.Policy{InboundRules: []*proto.Rule{{Action: "deny", RuleId: "old"}}})
		}
		var in, out []*proto.Rule
		for j, g := range p.in {
			in = append(in, g.toProto(fmt.Sprintf("i%d", j)))
		}
		for j, g := range p.out {
			out = append(out, g.toProto(fmt.Sprintf("o%d", j)))
		}
		if profiles {
			ps.AddOrReplacePolicySet(ids[i], &proto.Profile{InboundRules: in, OutboundRules: out})
		} else {
			ps.AddOrReplacePolicySet(ids[i], &proto.Policy{InboundRules: in, OutboundRules: out})
		}
	}
	got := ps.GetPolicySetRules(ids, inbound, eot)
	var impl []prule
	for _, a := range got {
		impl = append(impl, parseRule(a))
	}
	npk := 8
	if big {
		npk = 4
	}
	pkts := genPackets(r, w, all, npk)
	if big {
		pkts = append(pkts, pkt{proto: 6, src: 11<<24 | 4000, dst: 11<<24 | 4000, sport: 80, dpt: 80},
			pkt{proto: 6, src: 11<<24 | 3999, dst: 11<<24 | 4001, sport: 80, dpt: 80}, pkt{proto: 6, src: 11<<24 | 5000, dst: 11<<24 | 5000, sport: 80, dpt: 80})
	}
	var cp []string
	for _, p := range pols {
		cp = append(cp, fmt.Sprintf("(%s, PS %s %s)", coqBool(p.present), coqRuleList(p.in), coqRuleList(p.out)))
	}
	coq := fmt.Sprintf("(Old (TierCase (mkCase %s 4000 [%s] %s %s %s %s)))%%N", w.coq(), strings.Join(cp, ";"), coqBool(inbound), coqBool(eot), coqRules(impl), coqPkts(pkts))
	// non-trivial: at least two policy rules rendered and some connection decided by a rule other than the default
	hit := false
	for _, p := range pkts {
		for _, h := range impl[:len(impl)-1] {
			if h.matches(inbound, p) {
				hit = true
			}
		}
	}
	if profiles {
		tags = append(tags, "layout:profiles")
	} else if eot {
		tags = append(tags, "layout:tier-default-deny")
	} else {
		tags = append(tags, "layout:tier-default-pass")
	}
	if hasAbsent(pols) {
		tags = append(tags, "has:absent-policy")
	}
	tags = append(tags, fmt.Sprintf("policies:%d", npol), "dir:"+map[bool]string{true: "in", false: "out"}[inbound])
	prios := map[int]bool{}
	for _, h := range impl {
		prios[h.prio] = true
	}
	if len(prios) > 2 {
		tags = append(tags, "priority-bumps")
	}
	for _, g := range all {
		if len(g.ipportSets) > 0 {
			tags = append(tags, "has:services-rule")
			break
		}
	}
	for _, g := range all {
		if (len(g.srcSets) > 0 && len(g.srcNets) > 0) || (len(g.dstSets) > 0 && len(g.dstNets) > 0) {
			tags = append(tags, "has:cidr-and-ipset")
			break
		}
	}
	var sample []string
	for _, a := range got {
		sample = append(sample, fmt.Sprintf("%d %s %s proto=%d L=%s:%s R=%s:%s", a.Priority, a.Direction, a.Action, a.Protocol, a.LocalAddresses, a.LocalPorts, a.RemoteAddresses, a.RemotePorts))
	}
	if len(sample) > 12 {
		sample = sample[:12]
	}
	return line{Coq: coq, NT: hit && len(impl) >= 3, Key: coq, Tags: tags,
		Sample: map[string]any{"kind": kind, "inbound": inbound, "endOfTierDrop": eot, "policies": npol, "hns_rules": sample}}
}

func hasAbsent(ps []*gpol) bool {
	for _, p := range ps {
		if !p.present {
			return true
		}
	}
	return false
}

func (r *rng) perm(n int) []int {
	p := make([]int, n)
	for i := range p {
		p[i] = i
	}
	for i := n - 1; i > 0; i-- {
		j := r.intn(i + 1)
		p[i], p[j] = p[j], p[i]
	}
	return p
}

// one rule through protoRuleToHnsRules with a small chunk size
func ruleCase(r *rng, kind string) line {
	w := genWorld(r, false)
	ps := newPS(w, r)
	inbound := r.chance(50)
	chunk := 1 + r.intn(3)
	g := genRule(r, inbound, true, false)
	tags := []string{"kind:" + kind, fmt.Sprintf("chunk:%d", chunk)}
	if kind == "rule-unsupported" {
		tags = append(tags, "unsupported:"+makeUnsupported(r, g, inbound))
	}
	if kind == "rule-services-plus" {
		// an egress rule with destination services AND a protocol / source criteria: accepted by the API
		inbound = false
		g = genRule(r, false, true, false)
		g.dstNets, g.dstPorts, g.dstSets = nil, nil, nil
		g.ipportSets = []int{[]int{10, 11}[r.intn(2)]}
		if g.proto < 0 && len(g.srcNets) == 0 && len(g.srcSets) == 0 {
			g.proto, g.protoName = []int{6, 17}[r.intn(2)], ""
		}
		if g.proto != 6 && g.proto != 17 && g.proto != 132 {
			g.srcPorts = nil
		}
		if g.action == "log" {
			g.action, g.actionText = "deny", "Deny"
		}
	}
	got, err := ps.VerifProtoRuleToHnsRules("p", g.toProto("r"), inbound, chunk)
	var impl string
	var prs []prule
	switch err {
	case nil:
		for _, a := range got {
			prs = append(prs, parseRule(a))
		}
		impl = "(IOk " + coqRules(prs) + ")"
	case policysets.ErrNotSupported:
		impl = "(IErr ErrNotSupported)"
	case policysets.ErrRuleIsNoOp:
		impl = "(IErr ErrRuleIsNoOp)"
	case policysets.ErrMissingIPSet:
		impl = "(IErr ErrMissingIPSet)"
	default:
		panic("unexpected error " + err.Error())
	}
	pkts := genPackets(r, w, []*grule{g}, 10)
	coq := fmt.Sprintf("(Old (RuleCase (mkRCase %s %d %s %s %s %s)))%%N", w.coq(), chunk, g.coq(), coqBool(inbound), impl, coqPkts(pkts))
	hit := false
	for _, p := range pkts {
		for _, h := range prs {
			if h.matches(inbound, p) {
				hit = true
			}
		}
	}
	if err != nil {
		tags = append(tags, "result:"+err.Error())
	} else {
		tags = append(tags, fmt.Sprintf("result:rules:%d", min(len(prs), 9)))
	}
	return line{Coq: coq, NT: len(prs) >= 2 && hit, Key: coq, Tags: tags,
		Sample: map[string]any{"kind": kind, "chunk": chunk, "inbound": inbound, "rule": g.toProto("r").String(), "hns_rules": len(prs)}}
}

func main() {
	n := flag.Int("n", 100, "cases")
	seed := flag.Uint64("seed", 1, "seed")
	flag.Parse()
	log.SetOutput(io.Discard)
	log.SetLevel(log.PanicLevel)
	r := &rng{s: *seed}
	enc := json.NewEncoder(os.Stdout)
	fixedTree := probeCombinePorts()
	for i := 0; i < *n; i++ {
		var l line
		switch k := r.intn(260); {
		case k >= 230:
			l = renderHistCase(r, fixedTree)
		case k >= 200:
			l = histCase(r)
		case k < 50:
			l = tierCase(r, "tier")
		case k < 80:
			l = ruleCase(r, "rule")
		case k < 90:
			l = tierCase(r, "unsupported")
		case k < 96:
			l = ruleCase(r, "rule-unsupported")
		case k < 100:
			l = ruleCase(r, "rule-services-plus")
		case k < 108:
			l = tierCase(r, "staged")
		case k < 109:
			l = tierCase(r, "big")
		case k < 165:
			l = epCase(r, "ep", fixedTree)
		case k < 175:
			l = epCase(r, "ep-lastpass", fixedTree)
		case k < 183:
			l = epCase(r, "ep-staged", fixedTree)
		case k < 190:
			l = epCase(r, "ep-ports", fixedTree)
		default:
			l = prioCase(r)
		}
		if !strings.HasPrefix(l.Coq, "(RenderCase") {
			l.Coq = "(Prev " + l.Coq + ")"
		}
		_ = enc.Encode(l)
	}
}

// ---------------------------------------------------------------- endpoint level

// which combinePorts does the tree have?  (fixes/C30-combine-ports-empty-and-last-port.patch)
func probeCombinePorts() bool {
	empty, lastPort := false, false
	func() {
		defer func() { _ = recover() }()
		_, err := windataplane.VerifCombinePorts("80", "443")
		empty = err == policysets.ErrRuleIsNoOp
	}()
	func() {
		defer func() { _ = recover() }()
		s, err := windataplane.VerifCombinePorts("80", "80")
		lastPort = err == nil && s == "80"
	}()
	return empty && lastPort
}

type etpol struct {
	present, in, out bool
	rin, rout        []*grule
	name             string
}
type etier struct {
	name        string
	defaultPass bool
	pols        []*etpol
}

func hasPorts(g *grule, src bool) bool {
	if src {
		return len(g.srcPorts) > 0
	}
	return len(g.dstPorts) > 0
}

func genEpRules(r *rng, inbound bool, n int, passPct int, allowPass bool, portsInPass bool) []*grule {
	var out []*grule
	for i := 0; i < n; i++ {
		g := genRule(r, inbound, false, !allowPass)
		if allowPass && r.chance(passPct) && len(g.ipportSets) == 0 {
			g.action, g.actionText = "pass", []string{"pass", "Pass", "next-tier"}[r.intn(3)]
		}
		if g.action == "pass" && !portsInPass {
			g.srcPorts, g.dstPorts = nil, nil
		}
		out = append(out, g)
	}
	return out
}

func epCase(r *rng, kind string, fixedTree bool) line {
	w := genWorld(r, false)
	ps := newPS(w, r)
	noHostPrio := ps.VerifFeatures().Acl.AclNoHostRulePriority
	tags := []string{"kind:" + kind}
	// tiers
	var tiers []*etier
	names := []string{"tier-a", "tier-b", "default"}
	for i, nm := range names {
		if !r.chance([]int{55, 45, 70}[i]) {
			continue
		}
		t := &etier{name: nm, defaultPass: r.chance(30)}
		npol := 1 + r.intn(2)
		for j := 0; j < npol; j++ {
			q := &etpol{present: true, name: fmt.Sprintf("%s-p%d", nm, j)}
			switch r.intn(4) {
			case 0:
				q.in = true
			case 1:
				q.out = true
			default:
				q.in, q.out = true, true
			}
			isDefault := nm == "default"
			allowPass := !(isDefault && kind != "ep-lastpass")
			portsInPass := kind == "ep-ports" || r.chance(35)
			passPct := 45
			if kind == "ep-ports" {
				passPct = 70
			}
			q.rin = genEpRules(r, true, r.intn(4), passPct, allowPass, portsInPass)
			q.rout = genEpRules(r, false, r.intn(4), passPct, allowPass, portsInPass)
			if kind == "ep-ports" {
				// make ports meet ports: tcp with destination ports everywhere
				for _, g := range append(append([]*grule{}, q.rin...), q.rout...) {
					if len(g.ipportSets) == 0 && (g.proto == 6 || g.proto < 0) {
						g.proto, g.protoName = 6, "tcp"
						if len(g.dstPorts) == 0 {
							g.dstPorts = genPorts(r, 2)
						}
					}
				}
			}
			if kind == "ep-staged" && r.chance(45) {
				q.present = false
			}
			t.pols = append(t.pols, q)
		}
		if nm == "default" && kind != "ep-lastpass" {
			t.defaultPass = false
		}
		tiers = append(tiers, t)
	}
	if kind == "ep-lastpass" {
		// a Pass that leaves the last list: in the default tier, or in a profile
		tags = append(tags, "has:pass-leaves-last-list")
	}
	// profiles
	nprof := r.intn(3)
	var profs []*etpol
	for i := 0; i < nprof; i++ {
		q := &etpol{present: true, in: true, out: true, name: fmt.Sprintf("prof-%d", i)}
		q.rin = genEpRules(r, true, r.intn(3), 50, kind == "ep-lastpass", false)
		q.rout = genEpRules(r, false, r.intn(3), 50, kind == "ep-lastpass", false)
		if r.chance(50) {
			q.rin = append(q.rin, &grule{action: "allow", actionText: "allow", proto: -1, notProto: -1})
		}
		profs = append(profs, q)
	}
	if kind == "ep-staged" {
		any := false
		for _, t := range tiers {
			for _, q := range t.pols {
				any = any || !q.present
			}
		}
		if !any && len(tiers) > 0 {
			tiers[0].pols[0].present = false
		}
		tags = append(tags, "has:absent-policy")
	}
	// feed the real policy manager (it skips staged kinds) and build the endpoint
	toRules := func(gs []*grule, pfx string) []*proto.Rule {
		var out []*proto.Rule
		for j, g := range gs {
			out = append(out, g.toProto(fmt.Sprintf("%s%d", pfx, j)))
		}
		return out
	}
	wep := &proto.WorkloadEndpoint{Name: "pod", Ipv4Nets: []string{"10.65.0.2/32"}}
	var allIn, allOut []*grule
	for _, t := range tiers {
		ti := &proto.TierInfo{Name: t.name, DefaultAction: "Deny"}
		if t.defaultPass {
			ti.DefaultAction = "Pass"
		}
		for _, q := range t.pols {
			kindName := []string{"NetworkPolicy", "GlobalNetworkPolicy"}[r.intn(2)]
			if !q.present {
				kindName = "Staged" + kindName
			}
			id := &proto.PolicyID{Name: q.name, Kind: kindName}
			if strings.HasSuffix(kindName, "NetworkPolicy") && !strings.Contains(kindName, "Global") {
				id.Namespace = "ns1"
			}
			windataplane.VerifPolicyManagerOnUpdate(ps, &proto.ActivePolicyUpdate{Id: id, Policy: &proto.Policy{InboundRules: toRules(q.rin, "i"), OutboundRules: toRules(q.rout, "o")}})
			if q.in {
				ti.IngressPolicies = append(ti.IngressPolicies, id)
				allIn = append(allIn, q.rin...)
			}
			if q.out {
				ti.EgressPolicies = append(ti.EgressPolicies, id)
				allOut = append(allOut, q.rout...)
			}
		}
		wep.Tiers = append(wep.Tiers, ti)
	}
	for _, q := range profs {
		windataplane.VerifPolicyManagerOnUpdate(ps, &proto.ActiveProfileUpdate{Id: &proto.ProfileID{Name: q.name}, Profile: &proto.Profile{InboundRules: toRules(q.rin, "i"), OutboundRules: toRules(q.rout, "o")}})
		wep.ProfileIds = append(wep.ProfileIds, q.name)
		allIn = append(allIn, q.rin...)
		allOut = append(allOut, q.rout...)
	}
	var hostAddrs []gcidr
	var hostStrs []string
	for i := 0; i < r.intn(3); i++ {
		a := 10<<24 | uint32(r.intn(2))<<16 | uint32(200+i)
		hostAddrs = append(hostAddrs, gcidr{addr: a, plen: 32})
		hostStrs = append(hostStrs, ip4(a)+"/32")
	}
	upd := &proto.WorkloadEndpointUpdate{Id: &proto.WorkloadEndpointID{OrchestratorId: "k8s", WorkloadId: "ns1/pod", EndpointId: "eth0"}, Endpoint: wep}
	var got []*hns.ACLPolicy
	panicked := ""
	func() {
		defer func() {
			if x := recover(); x != nil {
				panicked = fmt.Sprint(x)
			}
		}()
		var err error
		got, err = windataplane.VerifRenderEndpoint(&fakeHNS{f: ps.VerifFeatures()}, ps, upd, hostStrs)
		if err != nil {
			panic("driver: CompleteDeferredWork failed: " + err.Error())
		}
	}()
	if strings.HasPrefix(panicked, "driver:") {
		panic(panicked)
	}
	impl := "None"
	var prs []prule
	if panicked == "" {
		var parts []string
		for _, a := range got {
			pr := parseRule(a)
			prs = append(prs, pr)
			rt := "RSwitch"
			if pr.host {
				rt = "RHost"
			}
			parts = append(parts, fmt.Sprintf("(%s, %s)", rt, pr.coq()))
		}
		impl = "(Some [" + strings.Join(parts, ";") + "])"
		tags = append(tags, "result:rules")
	} else {
		tags = append(tags, "result:panic")
	}
	pin := genPackets(r, w, allIn, 7)
	pout := genPackets(r, w, allOut, 7)
	if len(hostAddrs) > 0 {
		pin = append(pin, pkt{proto: 6, src: hostAddrs[0].addr, dst: uniAddr(r), sport: 1000, dpt: 80})
	}
	var ct []string
	for _, t := range tiers {
		var cp []string
		for _, q := range t.pols {
			cp = append(cp, fmt.Sprintf("(mkTP %s %s %s (PS %s %s))", coqBool(q.present), coqBool(q.in), coqBool(q.out), coqRuleList(q.rin), coqRuleList(q.rout)))
		}
		ct = append(ct, fmt.Sprintf("(mkTS %s %s [%s])", coqBool(t.name == "default"), coqBool(t.defaultPass), strings.Join(cp, ";")))
	}
	var cpr []string
	for _, q := range profs {
		cpr = append(cpr, fmt.Sprintf("(PS %s %s)", coqRuleList(q.rin), coqRuleList(q.rout)))
	}
	coq := fmt.Sprintf("(EpCase (mkECase %s 4000 [%s] [%s] %s %s %s %s %s %s))%%N", w.coq(), strings.Join(ct, ";"), strings.Join(cpr, ";"),
		coqCidrs(hostAddrs), coqBool(noHostPrio), coqBool(fixedTree), impl, coqPkts(pin), coqPkts(pout))
	// does a Pass rule with ports meet a later rule with ports on the same side?  (combinePorts with two non-empty lists)
	meets := func(inbound bool) bool {
		var lists [][]*grule
		defaultApplies := false
		for _, t := range tiers {
			var l []*grule
			n := 0
			for _, q := range t.pols {
				if inbound && q.in {
					l = append(l, q.rin...)
					n++
				}
				if !inbound && q.out {
					l = append(l, q.rout...)
					n++
				}
			}
			if n > 0 {
				lists = append(lists, l)
				if t.name == "default" {
					defaultApplies = true
				}
			}
		}
		if len(lists) == 0 || !defaultApplies {
			var l []*grule
			for _, q := range profs {
				if inbound {
					l = append(l, q.rin...)
				} else {
					l = append(l, q.rout...)
				}
			}
			lists = append(lists, l)
		}
		for i := 0; i+1 < len(lists); i++ {
			for _, g := range lists[i] {
				if g.action != "pass" {
					continue
				}
				for _, side := range []bool{true, false} {
					if !hasPorts(g, side) {
						continue
					}
					for j := i + 1; j < len(lists); j++ {
						for _, g2 := range lists[j] {
							if hasPorts(g2, side) {
								return true
							}
						}
					}
				}
			}
		}
		return false
	}
	if meets(true) || meets(false) {
		tags = append(tags, "has:pass-ports-meet-ports")
	}
	if fixedTree {
		tags = append(tags, "tree:combine-ports-fixed")
	} else {
		tags = append(tags, "tree:combine-ports-unfixed")
	}
	tags = append(tags, fmt.Sprintf("tiers:%d", len(tiers)), fmt.Sprintf("profiles:%d", len(profs)))
	nPass := 0
	for _, g := range append(append([]*grule{}, allIn...), allOut...) {
		if g.action == "pass" {
			nPass++
		}
	}
	if nPass > 0 {
		tags = append(tags, "has:pass-rule")
	}
	var sample []string
	for i, a := range got {
		if i < 14 {
			sample = append(sample, fmt.Sprintf("%d %s %s %s proto=%d L=%s:%s R=%s:%s", a.Priority, a.RuleType, a.Direction, a.Action, a.Protocol, a.LocalAddresses, a.LocalPorts, a.RemoteAddresses, a.RemotePorts))
		}
	}
	return line{Coq: coq, NT: len(prs) >= 6 && nPass > 0 && len(tiers) > 0, Key: coq, Tags: tags,
		Sample: map[string]any{"kind": kind, "tiers": len(tiers), "profiles": len(profs), "panic": panicked, "final_rules": sample}}
}

// rewritePriorities alone, with limits small enough to reach the "same priority for a group" branch
func prioCase(r *rng) line {
	n := r.intn(9)
	var rules []*hns.ACLPolicy
	var in []prule
	for i := 0; i < n; i++ {
		act := []hns.ActionType{hns.Allow, hns.Block, hns.Allow, policysets.ActionPass}[r.intn(4)]
		if r.chance(50) && i > 0 {
			act = rules[i-1].Action
		}
		a := &hns.ACLPolicy{Type: hns.ACL, RuleType: hns.Switch, Action: act, Direction: hns.In, Protocol: 256, Priority: uint16(1000 + r.intn(5)), LocalPorts: strconv.Itoa(80 + i)}
		rules = append(rules, a)
		in = append(in, parseRule(a))
	}
	limit := 1000 + r.intn(12)
	if r.chance(20) {
		limit = 65000
	}
	windataplane.VerifRewritePriorities(rules, uint16(limit))
	var out []prule
	for _, a := range rules {
		out = append(out, parseRule(a))
	}
	coq := fmt.Sprintf("(PrioCase (mkPCase %d %s %s))%%N", limit, coqRules(in), coqRules(out))
	tag := "branch:always-increment"
	if n >= limit-1000 {
		tag = "branch:groups"
	}
	return line{Coq: coq, NT: n >= 3, Key: coq, Tags: []string{"kind:rewrite-priorities", tag},
		Sample: map[string]any{"kind": "rewrite-priorities", "limit": limit, "n": n}}
}

// ---------------------------------------------------------------- histories

// the canonical text of a set member (equal CIDRs <-> equal strings)
func memberText(c gcidr) string {
	if c.plen == 32 {
		return ip4(c.addr)
	}
	return fmt.Sprintf("%s/%d", ip4(c.addr), c.plen)
}

func genMembers(r *rng, n int, pool []gcidr) []gcidr {
	var out []gcidr
	for i := 0; i < n; i++ {
		var c gcidr
		switch {
		case len(pool) > 0 && r.chance(50):
			c = pool[r.intn(len(pool))]
		case r.chance(75):
			c = gcidr{addr: uniAddr(r), plen: 32}
		default:
			c = genCIDR4(r)
			c.addr = mask(c.addr, c.plen)
		}
		c.text = memberText(c)
		out = append(out, c)
	}
	return out
}

// A history of AddOrReplacePolicySet / RemovePolicySet and IP-set cache updates.  The real Windows IP-set cache is
// wired to the real PolicySets as the dataplane does it: every change of an IP set ends in ProcessIpSetUpdate(id)
// (win_dataplane.go: ipSetsV4.SetCallback(endpointMgr.OnIPSetsUpdate) -> CompleteDeferredWork -> ProcessIpSetUpdate).
// GetPolicySetRules is observed after every step.
func histCase(r *rng) line {
	cache := winipsets.NewIPSets(winipsets.NewIPVersionConfig(winipsets.IPFamilyV4))
	h := &fakeHNS{}
	h.f.Acl.AclRuleId = r.chance(50)
	ps := policysets.NewPolicySets(h, []policysets.IPSetCache{cache}, noStatic{})
	cache.SetCallback(func(id string) { ps.ProcessIpSetUpdate(id) })
	inbound := r.chance(50)
	eot := r.chance(70)
	npol := 1 + r.intn(3)
	ids := []string{}
	var idNums []string
	for i := 0; i < npol; i++ {
		ids = append(ids, fmt.Sprintf("policy-%d", i))
		idNums = append(idNums, strconv.Itoa(i))
	}
	exists := map[int]bool{} // IP sets that exist in the cache
	var pool []gcidr         // addresses worth aiming at
	var allRules []*grule
	var ops, obs []string
	tags := []string{"kind:history"}
	var sample []string
	observe := func() {
		got := ps.GetPolicySetRules(ids, inbound, eot)
		var prs []prule
		for _, a := range got {
			prs = append(prs, parseRule(a))
		}
		obs = append(obs, coqRules(prs))
		sample = append(sample, fmt.Sprintf("%d rules", len(prs)))
	}
	genPol := func() ([]*grule, []*grule) {
		var in, out []*grule
		for d := 0; d < 2; d++ {
			n := 1 + r.intn(3)
			for j := 0; j < n; j++ {
				g := genRule(r, d == 0, false, false)
				g.ipportSets = nil
				if g.action == "log" {
					g.action, g.actionText = "allow", "allow"
				}
				// most rules depend on an IP set, often together with CIDRs
				if r.chance(75) {
					sid := 1 + r.intn(3)
					if r.chance(50) {
						g.srcSets, g.dstSets = []int{sid}, nil
					} else {
						g.dstSets, g.srcSets = []int{sid}, nil
					}
				}
				for _, c := range append(append([]gcidr{}, g.srcNets...), g.dstNets...) {
					if !c.v6 {
						pool = append(pool, gcidr{addr: mask(c.addr, c.plen) + 1, plen: 32})
					}
				}
				if d == 0 {
					in = append(in, g)
				} else {
					out = append(out, g)
				}
			}
		}
		return in, out
	}
	addPolicy := func(i int) {
		in, out := genPol()
		var pin, pout []*proto.Rule
		for j, g := range in {
			pin = append(pin, g.toProto(fmt.Sprintf("i%d", j)))
		}
		for j, g := range out {
			pout = append(pout, g.toProto(fmt.Sprintf("o%d", j)))
		}
		ps.AddOrReplacePolicySet(ids[i], &proto.Policy{InboundRules: pin, OutboundRules: pout})
		ops = append(ops, fmt.Sprintf("(HAddPolicy %d (PS %s %s))", i, coqRuleList(in), coqRuleList(out)))
		if inbound {
			allRules = append(allRules, in...)
		} else {
			allRules = append(allRules, out...)
		}
	}
	meta := func(sid int) winipsets.IPSetMetadata {
		return winipsets.IPSetMetadata{SetID: setName(sid), Type: felixipsets.IPSetTypeHashNet, MaxSize: 1000}
	}
	texts := func(cs []gcidr) []string {
		var out []string
		for _, c := range cs {
			out = append(out, c.text)
		}
		return out
	}
	// start: some sets exist (empty or populated), some do not; then the policies arrive
	for sid := 1; sid <= 3; sid++ {
		switch r.intn(3) {
		case 0:
			cache.AddOrReplaceIPSet(meta(sid), nil)
			exists[sid] = true
			ops = append(ops, fmt.Sprintf("(HSetReplace %d [])", sid))
			observe()
		case 1:
			ms := genMembers(r, 1+r.intn(3), nil)
			cache.AddOrReplaceIPSet(meta(sid), texts(ms))
			exists[sid] = true
			pool = append(pool, ms...)
			ops = append(ops, fmt.Sprintf("(HSetReplace %d %s)", sid, coqCidrs(ms)))
			observe()
		}
	}
	for i := 0; i < npol; i++ {
		if r.chance(85) {
			addPolicy(i)
			observe()
		}
	}
	nops := 3 + r.intn(5)
	for k := 0; k < nops; k++ {
		sid := 1 + r.intn(3)
		switch c := r.intn(20); {
		case c < 7 && exists[sid]:
			ms := genMembers(r, 1+r.intn(3), pool)
			cache.AddMembers(setName(sid), texts(ms))
			pool = append(pool, ms...)
			ops = append(ops, fmt.Sprintf("(HSetAdd %d %s)", sid, coqCidrs(ms)))
			tags = append(tags, "op:add-members")
		case c < 10 && exists[sid]:
			ms := genMembers(r, 1+r.intn(2), pool)
			cache.RemoveMembers(setName(sid), texts(ms))
			ops = append(ops, fmt.Sprintf("(HSetDel %d %s)", sid, coqCidrs(ms)))
			tags = append(tags, "op:remove-members")
		case c < 14:
			ms := genMembers(r, r.intn(4), pool)
			cache.AddOrReplaceIPSet(meta(sid), texts(ms))
			exists[sid] = true
			pool = append(pool, ms...)
			ops = append(ops, fmt.Sprintf("(HSetReplace %d %s)", sid, coqCidrs(ms)))
			tags = append(tags, "op:replace-set")
		case c < 15:
			cache.RemoveIPSet(setName(sid))
			exists[sid] = false
			ops = append(ops, fmt.Sprintf("(HSetRemove %d)", sid))
			tags = append(tags, "op:remove-set")
		case c < 19:
			addPolicy(r.intn(npol))
			tags = append(tags, "op:add-or-replace-policy")
		default:
			i := r.intn(npol)
			ps.RemovePolicySet(ids[i])
			ops = append(ops, fmt.Sprintf("(HRemovePolicy %d)", i))
			tags = append(tags, "op:remove-policy")
		}
		observe()
	}
	w := &world{netSets: map[int][]gcidr{}, ipportSets: map[int][]ipportMember{}}
	w.netSets[1] = pool
	if len(w.netSets[1]) > 6 {
		w.netSets[1] = w.netSets[1][len(w.netSets[1])-6:]
	}
	pkts := genPackets(r, w, allRules, 10)
	for i := 0; i < 4 && len(pool) > 0; i++ {
		a := pool[r.intn(len(pool))]
		b := pool[r.intn(len(pool))]
		pkts = append(pkts, pkt{proto: []int{6, 17}[r.intn(2)], src: a.addr, dst: b.addr, sport: []int{80, 443, 53, 1000}[r.intn(4)], dpt: []int{80, 443, 53, 1000}[r.intn(4)]})
	}
	coq := fmt.Sprintf("(HistCase (mkHCase 4000 [%s] %s %s [%s] [%s] %s))%%N", strings.Join(idNums, ";"), coqBool(inbound), coqBool(eot),
		strings.Join(ops, ";"), strings.Join(obs, ";"), coqPkts(pkts))
	return line{Coq: coq, NT: len(ops) >= 5, Key: coq, Tags: tags,
		Sample: map[string]any{"kind": "history", "ops": len(ops), "inbound": inbound, "observations": sample}}
}

// ---------------------------------------------------------------- rendering histories

// Several endpoints with different tier layouts rendered one after the other by the real endpoint manager from ONE
// PolicySets / policy manager, with and without policies being re-sent in between.  Every rendering is compared with
// the model and judged by the oracle on its own.
func renderHistCase(r *rng, fixedTree bool) line {
	w := genWorld(r, false)
	// the model's cache holds sets: no duplicate members
	for id := 1; id <= 3; id++ {
		seen := map[string]bool{}
		var ms []gcidr
		var ss []string
		for _, c := range w.netSets[id] {
			k := fmt.Sprintf("%d/%d", c.addr, c.plen)
			if !seen[k] {
				seen[k] = true
				ms = append(ms, c)
				ss = append(ss, c.text)
			}
		}
		w.netSets[id] = ms
		w.cache.sets[setName(id)] = ss
	}
	ps := newPS(w, r)
	noHostPrio := ps.VerifFeatures().Acl.AclNoHostRulePriority
	tags := []string{"kind:render-history"}
	var ops, obs []string
	for id := 1; id <= 3; id++ {
		ops = append(ops, fmt.Sprintf("(ROp (HSetReplace %d %s))", id, coqCidrs(w.netSets[id])))
	}
	tierNames := []string{"tier-a", "default", "baseline"}
	defaultPass := []bool{r.chance(40), r.chance(20), false}
	type pol struct {
		id       int
		tier     int
		in, out  bool
		rin, rout []*grule
	}
	var pols []*pol
	var allIn, allOut []*grule
	genContent := func(q *pol) {
		portsInPass := r.chance(30)
		q.rin = genEpRules(r, true, 1+r.intn(3), 40, true, portsInPass)
		q.rout = genEpRules(r, false, 1+r.intn(3), 40, true, portsInPass)
		for _, g := range append(append([]*grule{}, q.rin...), q.rout...) {
			g.ipportSets = nil
		}
		// often a leading Pass rule: it sits at the base priority of its tier; half of them match everything
		anyRule := func(act string) *grule { return &grule{action: act, actionText: act, proto: -1, notProto: -1} }
		if r.chance(60) && len(q.rin) > 0 {
			q.rin[0].action, q.rin[0].actionText = "pass", "Pass"
			if r.chance(50) {
				q.rin[0] = anyRule("pass")
			}
		}
		if r.chance(60) && len(q.rout) > 0 {
			q.rout[0].action, q.rout[0].actionText = "pass", "Pass"
			if r.chance(50) {
				q.rout[0] = anyRule("pass")
			}
		}
		// the tier after the default tier mostly ends in an allow-everything rule
		if q.tier == 2 && r.chance(70) {
			q.rin = append(q.rin, anyRule("allow"))
			q.rout = append(q.rout, anyRule("allow"))
		}
		allIn = append(allIn, q.rin...)
		allOut = append(allOut, q.rout...)
	}
	pid := func(q *pol) *proto.PolicyID {
		return &proto.PolicyID{Name: fmt.Sprintf("p%d", q.id), Kind: "NetworkPolicy", Namespace: "ns1"}
	}
	send := func(q *pol) {
		toRules := func(gs []*grule, pfx string) []*proto.Rule {
			var out []*proto.Rule
			for j, g := range gs {
				out = append(out, g.toProto(fmt.Sprintf("%s%d", pfx, j)))
			}
			return out
		}
		windataplane.VerifPolicyManagerOnUpdate(ps, &proto.ActivePolicyUpdate{Id: pid(q), Policy: &proto.Policy{InboundRules: toRules(q.rin, "i"), OutboundRules: toRules(q.rout, "o")}})
		ops = append(ops, fmt.Sprintf("(ROp (HAddPolicy %d (PS %s %s)))", q.id, coqRuleList(q.rin), coqRuleList(q.rout)))
	}
	for ti := range tierNames {
		n := 1 + r.intn(2)
		if ti == 2 {
			n = 1
		}
		for j := 0; j < n; j++ {
			q := &pol{id: len(pols), tier: ti}
			switch r.intn(4) {
			case 0:
				q.in = true
			case 1:
				q.out = true
			default:
				q.in, q.out = true, true
			}
			genContent(q)
			pols = append(pols, q)
			send(q)
		}
	}
	var hostAddrs []gcidr
	var hostStrs []string
	if r.chance(50) {
		a := uint32(10<<24 | 200)
		hostAddrs = append(hostAddrs, gcidr{addr: a, plen: 32})
		hostStrs = append(hostStrs, ip4(a)+"/32")
	}
	nrender := 2 + r.intn(2)
	var sample []string
	// the first rendering often ends with the default tier, later ones add the tier after it
	for k := 0; k < nrender; k++ {
		if k > 0 && r.chance(30) {
			q := pols[r.intn(len(pols))]
			if r.chance(50) {
				genContent(q)
				tags = append(tags, "resend:new-content")
			} else {
				tags = append(tags, "resend:same-content")
			}
			send(q)
		}
		use := []bool{r.chance(60), r.chance(85), r.chance(50)}
		if k == 0 && r.chance(60) {
			use[2] = false
		}
		if k > 0 && r.chance(60) {
			use[1], use[2] = true, true
		}
		if !use[0] && !use[1] && !use[2] {
			use[1] = true
		}
		wep := &proto.WorkloadEndpoint{Name: "pod", Ipv4Nets: []string{"10.65.0.2/32"}}
		var ct []string
		var names []string
		for ti, nm := range tierNames {
			if !use[ti] {
				continue
			}
			names = append(names, nm)
			tinfo := &proto.TierInfo{Name: nm, DefaultAction: "Deny"}
			if defaultPass[ti] {
				tinfo.DefaultAction = "Pass"
			}
			var in, out []string
			for _, q := range pols {
				if q.tier != ti {
					continue
				}
				if q.in {
					tinfo.IngressPolicies = append(tinfo.IngressPolicies, pid(q))
					in = append(in, strconv.Itoa(q.id))
				}
				if q.out {
					tinfo.EgressPolicies = append(tinfo.EgressPolicies, pid(q))
					out = append(out, strconv.Itoa(q.id))
				}
			}
			wep.Tiers = append(wep.Tiers, tinfo)
			ct = append(ct, fmt.Sprintf("(mkIT %s %s [%s] [%s])", coqBool(nm == "default"), coqBool(defaultPass[ti]), strings.Join(in, ";"), strings.Join(out, ";")))
		}
		ops = append(ops, fmt.Sprintf("(RRender (mkL [%s] []))", strings.Join(ct, ";")))
		upd := &proto.WorkloadEndpointUpdate{Id: &proto.WorkloadEndpointID{OrchestratorId: "k8s", WorkloadId: fmt.Sprintf("ns1/pod%d", k), EndpointId: "eth0"}, Endpoint: wep}
		var got []*hns.ACLPolicy
		panicked := ""
		func() {
			defer func() {
				if x := recover(); x != nil {
					panicked = fmt.Sprint(x)
				}
			}()
			var err error
			got, err = windataplane.VerifRenderEndpoint(&fakeHNS{f: ps.VerifFeatures()}, ps, upd, hostStrs)
			if err != nil {
				panic("driver: CompleteDeferredWork failed: " + err.Error())
			}
		}()
		if strings.HasPrefix(panicked, "driver:") {
			panic(panicked)
		}
		if panicked != "" {
			obs = append(obs, "None")
		} else {
			var parts []string
			for _, a := range got {
				pr := parseRule(a)
				rt := "RSwitch"
				if pr.host {
					rt = "RHost"
				}
				parts = append(parts, fmt.Sprintf("(%s, %s)", rt, pr.coq()))
			}
			obs = append(obs, "(Some ["+strings.Join(parts, ";")+"])")
		}
		sample = append(sample, fmt.Sprintf("render %d: tiers %v -> %d rules", k, names, len(got)))
		tags = append(tags, "layout:"+strings.Join(names, "+"))
	}
	pin := genPackets(r, w, allIn, 12)
	pout := genPackets(r, w, allOut, 12)
	coq := fmt.Sprintf("(RenderCase (mkRHCase 4000 %s %s %s [%s] [%s] %s %s))%%N", coqBool(fixedTree), coqCidrs(hostAddrs), coqBool(noHostPrio),
		strings.Join(ops, ";"), strings.Join(obs, ";"), coqPkts(pin), coqPkts(pout))
	return line{Coq: coq, NT: nrender >= 2, Key: coq, Tags: tags, Sample: map[string]any{"kind": "render-history", "renderings": sample}}
}
