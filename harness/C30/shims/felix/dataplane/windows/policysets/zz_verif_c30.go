//go:build verif

package policysets

import (
	"github.com/projectcalico/calico/felix/dataplane/windows/hns"
	"github.com/projectcalico/calico/felix/proto"
)

// VerifProtoRuleToHnsRules exposes protoRuleToHnsRules so that the C30 driver can choose the chunk size
// (protoRulesToHnsRules fixes it at 4000).
func (s *PolicySets) VerifProtoRuleToHnsRules(policyId string, r *proto.Rule, isInbound bool, chunk int) ([]*hns.ACLPolicy, error) {
	return s.protoRuleToHnsRules(policyId, r, isInbound, chunk)
}

// VerifFeatures returns the HNS features the policy sets were built with.
func (s *PolicySets) VerifFeatures() hns.HNSSupportedFeatures { return s.supportedFeatures }
