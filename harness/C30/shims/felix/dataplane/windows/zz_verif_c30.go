//go:build verif

package windataplane

import (
	"github.com/projectcalico/calico/felix/dataplane/windows/hns"
	"github.com/projectcalico/calico/felix/dataplane/windows/policysets"
	"github.com/projectcalico/calico/felix/proto"
	"github.com/projectcalico/calico/felix/types"
)

// VerifHNS is hnsInterface, exported for the C30 driver.
type VerifHNS interface {
	GetHNSSupportedFeatures() hns.HNSSupportedFeatures
	HNSListEndpointRequest() ([]hns.HNSEndpoint, error)
}

// VerifRenderEndpoint runs the real endpoint manager on one WorkloadEndpointUpdate and returns the ACL rules it
// applied to the HNS endpoint (activeWlACLPolicies).  hostAddrs replaces the addresses read from the machine's
// interfaces so that the node->endpoint rule is deterministic.
func VerifRenderEndpoint(h VerifHNS, ps policysets.PolicySetsDataplane, upd *proto.WorkloadEndpointUpdate, hostAddrs []string) ([]*hns.ACLPolicy, error) {
	m := newEndpointManager(h, ps)
	m.hostAddrs = hostAddrs
	m.OnUpdate(upd)
	err := m.CompleteDeferredWork()
	return m.activeWlACLPolicies[types.ProtoToWorkloadEndpointID(upd.GetId())], err
}

func VerifFlattenTiers(t [][]*hns.ACLPolicy) []*hns.ACLPolicy { return flattenTiers(t) }

func VerifRewritePriorities(p []*hns.ACLPolicy, limit uint16) { rewritePriorities(p, limit) }

func VerifCombinePorts(a, b string) (string, error) { return combinePorts(a, b) }

// VerifPolicyManagerOnUpdate feeds one message to the real policy manager in front of the given policy sets.
func VerifPolicyManagerOnUpdate(ps policysets.PolicySetsDataplane, msg any) { newPolicyManager(ps).OnUpdate(msg) }
