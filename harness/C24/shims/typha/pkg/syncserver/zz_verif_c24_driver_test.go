//go:build verif

// C24 correspondence driver.  Runs, inside a testing/synctest bubble (virtual clock, deterministic quiescence):
//   - the REAL snapcache.Cache, fed through its public OnUpdates/OnStatusUpdated and pumped with its own
//     fillBatchFromInputQueue + publishBreadcrumbs (VerifPump, a synchronous stand-in for `go c.loop()`);
//   - the REAL per-connection server code (connection.handle: handshake, streamed or binary snapshot,
//     sendDeltaUpdatesToClient) on one end of a net.Pipe, constructed exactly as Server.serve constructs it;
//   - the REAL syncclient main loop (handshake, gob/snappy decoder restart, decode loop) on the other end, delivering
//     into a recording api.SyncerCallbacks whose calls can be held back (slow reader).
//
// One JSON line per case is written to $VERIF_OUT.
package syncserver

import (
	"context"
	"encoding/gob"
	"encoding/json"
	"flag"
	"fmt"
	"io"
	"net"
	"os"
	"sort"
	"strconv"
	"strings"
	"sync"
	"sync/atomic"
	"testing"
	"testing/synctest"
	"time"

	apiv3 "github.com/projectcalico/api/pkg/apis/projectcalico/v3"
	log "github.com/sirupsen/logrus"

	"github.com/projectcalico/calico/libcalico-go/lib/backend/api"
	"github.com/projectcalico/calico/libcalico-go/lib/backend/model"
	"github.com/projectcalico/calico/typha/pkg/snapcache"
	"github.com/projectcalico/calico/typha/pkg/syncclient"
	"github.com/projectcalico/calico/typha/pkg/syncproto"
)

type vrng struct{ s uint64 }

func (r *vrng) next() uint64 {
	r.s += 0x9e3779b97f4a7c15
	z := r.s
	z = (z ^ (z >> 30)) * 0xbf58476d1ce4e5b9
	z = (z ^ (z >> 27)) * 0x94d049bb133111eb
	return z ^ (z >> 31)
}
func (r *vrng) intn(n int) int { return int(r.next() % uint64(n)) }
func (r *vrng) pct(p int) bool { return r.intn(100) < p }

// ---------------------------------------------------------------------------------------------- keys and values

type vkey struct {
	key  model.Key
	path string
	kind int // 0 global config, 1 host config, 2 v3 resource
}

func keyPool() []vkey {
	var ks []vkey
	add := func(k model.Key, kind int) {
		p, err := model.KeyToDefaultPath(k)
		if err != nil {
			panic(err)
		}
		ks = append(ks, vkey{k, p, kind})
	}
	for _, n := range []string{"cfgA", "cfgB", "cfgC"} {
		add(model.GlobalConfigKey{Name: n}, 0)
	}
	add(model.HostConfigKey{Hostname: "h1", Name: "x"}, 1)
	add(model.HostConfigKey{Hostname: "h0", Name: "y"}, 1)
	add(model.ResourceKey{Kind: apiv3.KindGlobalNetworkSet, Name: "ns1"}, 2)
	add(model.ResourceKey{Kind: apiv3.KindGlobalNetworkSet, Name: "ns0"}, 2)
	sort.Slice(ks, func(i, j int) bool { return ks[i].path < ks[j].path })
	return ks
}

func mkValue(k vkey, variant int, rev string) any {
	switch k.kind {
	case 2:
		s := apiv3.NewGlobalNetworkSet()
		s.Name = k.key.(model.ResourceKey).Name
		s.ResourceVersion = rev
		s.Spec.Nets = []string{fmt.Sprintf("10.0.%d.0/24", variant)}
		return s
	default:
		return fmt.Sprintf("val%d", variant)
	}
}

// value table: serialized bytes -> small id (per case)
type valTab struct {
	ids map[string]int
}

func (t *valTab) id(b []byte) int {
	if id, ok := t.ids[string(b)]; ok {
		return id
	}
	id := len(t.ids) + 1
	t.ids[string(b)] = id
	return id
}

var typeNames = map[api.UpdateType]string{api.UpdateTypeKVUnknown: "TUnknown", api.UpdateTypeKVNew: "TNew",
	api.UpdateTypeKVUpdated: "TUpdated", api.UpdateTypeKVDeleted: "TDeleted"}
var statusNames = map[api.SyncStatus]string{api.WaitForDatastore: "SWait", api.ResyncInProgress: "SResync", api.InSync: "SInSync"}

// canonical Coq term of a serialized update (server side: crumbs)
func (t *valTab) suTerm(pathID map[string]int, su syncproto.SerializedUpdate) string {
	k, ok := pathID[su.Key]
	if !ok {
		k = 9999
	}
	v := "None"
	if su.Value != nil {
		v = fmt.Sprintf("(Some %d)", t.id(su.Value))
	}
	rev := 999999
	if s, ok := su.Revision.(string); ok {
		if n, err := strconv.Atoi(s); err == nil {
			rev = n
		}
	}
	if su.V3ResourceVersion != "" && su.V3ResourceVersion != fmt.Sprint(su.Revision) {
		rev = 999998
	}
	tn, ok := typeNames[su.UpdateType]
	if !ok {
		tn = "TUnknown"
	}
	return fmt.Sprintf("(U %d %s %d %d %s)", k, v, rev, int64(su.TTL), tn)
}

// canonical Coq term of an api.Update (inputs, and what the client's callbacks received): canonicalised through the
// same serializer so that values are compared as bytes.
func (t *valTab) updTerm(pathID map[string]int, u api.Update) string {
	su, err := syncproto.SerializeUpdate(u)
	if err != nil {
		return "(U 9999 None 0 0 TUnknown)"
	}
	if u.Value != nil && su.Value == nil {
		return "(U 9998 None 0 0 TUnknown)"
	}
	return t.suTerm(pathID, su)
}

// ---------------------------------------------------------------------------------------------- recording client

type vrec struct {
	mu      sync.Mutex
	obs     []string
	nInSync int
	free    atomic.Bool
	freeC   chan struct{}
	permits chan struct{}
	tab     *valTab
	pathID  map[string]int
}

func (r *vrec) gate() {
	if r.free.Load() {
		return
	}
	select {
	case <-r.permits:
	case <-r.freeC:
	}
}

func (r *vrec) OnStatusUpdated(s api.SyncStatus) {
	r.gate()
	r.mu.Lock()
	defer r.mu.Unlock()
	n, ok := statusNames[s]
	if !ok {
		n = "SWait"
		r.obs = append(r.obs, "CDead")
	}
	if s == api.InSync {
		r.nInSync++
	}
	r.obs = append(r.obs, "(CS "+n+")")
}

func (r *vrec) OnUpdates(us []api.Update) {
	r.gate()
	r.mu.Lock()
	defer r.mu.Unlock()
	ts := make([]string, len(us))
	for i, u := range us {
		ts[i] = r.tab.updTerm(r.pathID, u)
	}
	r.obs = append(r.obs, "(CU ["+strings.Join(ts, "; ")+"])")
}

// ---------------------------------------------------------------------------------------------- server-side event log

type vlog struct {
	mu  sync.Mutex
	ev  []byte   // 'C' = kv-sender (or snapshot streamer) looked at the cache for one crumb, 'W' = a write to the client
	lat []uint64 // for the i-th 'C': SequenceNumber of the crumb that CurrentBreadcrumb() returned (the "latest" crumb)
}

func (l *vlog) add(b byte) { l.mu.Lock(); l.ev = append(l.ev, b); l.mu.Unlock() }

type logCache struct {
	inner    *snapcache.Cache
	l        *vlog
	calls    int
	firstSeq uint64 // crumb returned by the first call (handle() picking the crumb of a streamed snapshot)
}

func (c *logCache) CurrentBreadcrumb() *snapcache.Breadcrumb {
	b := c.inner.CurrentBreadcrumb()
	c.l.mu.Lock()
	c.l.ev = append(c.l.ev, 'C')
	c.l.lat = append(c.l.lat, b.SequenceNumber)
	if c.calls == 0 {
		c.firstSeq = b.SequenceNumber
	}
	c.calls++
	c.l.mu.Unlock()
	return b
}

// logSnap records which crumb the binary snapshot handed to this connection was made from.
type logSnap struct {
	inner snapshotCache
	l     *vlog
	seq   uint64
	used  bool
	c     *caseRun
}

func (s *logSnap) SendSnapshot(ctx context.Context, w io.Writer, conn WriteDeadlineSetter) (*snapcache.Breadcrumb, error) {
	// what the snapshot cache can see when it is asked: the (virtual) time and the newest crumb
	t := time.Since(s.c.t0)
	cur := s.c.cache.CurrentBreadcrumb().SequenceNumber
	b, err := s.inner.SendSnapshot(ctx, w, conn)
	if b != nil {
		s.l.mu.Lock()
		s.seq, s.used = b.SequenceNumber, true
		s.l.mu.Unlock()
		s.c.snapMu.Lock()
		s.c.snapReqs = append(s.c.snapReqs, fmt.Sprintf("(%d, %d, %d)", int64(t), cur, b.SequenceNumber))
		if b.SequenceNumber < cur {
			s.c.snapOld = true
		}
		if len(s.c.snapReqs) > 1 {
			s.c.snapNth = true
		}
		s.c.snapMu.Unlock()
	}
	return b, err
}

type logWriter struct {
	w io.Writer
	l *vlog
}

func (w *logWriter) Write(p []byte) (int, error) { w.l.add('W'); return w.w.Write(p) }

// groups: sizes of the maximal runs of 'C' after the snapshot phase, and for each of those 'C's the newest crumb
// that the sender saw when it looked.
func (l *vlog) groups(streamed bool) ([]int, []uint64) {
	l.mu.Lock()
	defer l.mu.Unlock()
	ev := l.ev
	i, ci := 0, 0
	if streamed {
		// the single CurrentBreadcrumb() call of handle() that picks the snapshot crumb
		for i < len(ev) && ev[i] != 'C' {
			i++
		}
		i++
		ci++
	}
	for i < len(ev) && ev[i] == 'W' {
		i++
	}
	var gs []int
	var lats []uint64
	for i < len(ev) {
		n := 0
		for i < len(ev) && ev[i] == 'C' {
			n++
			i++
			if ci < len(l.lat) {
				lats = append(lats, l.lat[ci])
			}
			ci++
		}
		for i < len(ev) && ev[i] == 'W' {
			i++
		}
		gs = append(gs, n)
	}
	return gs, lats
}

// ---------------------------------------------------------------------------------------------- one case

type vline struct {
	Coq    string         `json:"coq"`
	NT     bool           `json:"nt"`
	Key    string         `json:"key"`
	Sample map[string]any `json:"sample,omitempty"`
	Tags   []string       `json:"tags"`
}

type caseRun struct {
	r        *vrng
	cache    *snapcache.Cache
	srv      *Server
	first    *snapcache.Breadcrumb
	keys     []vkey
	pathID   map[string]int
	tab      *valTab
	ctx      context.Context
	rev      int
	exists   map[int]int // key index -> current variant (syncer's view), absent = not present
	status   api.SyncStatus
	pushes   []string
	clients  []string
	tags     map[string]bool
	maxBatch int
	maxMsg   int
	nUpd     int
	mode     int // 0 normal, 1 statuses only, 2 mostly no-op updates, 3 update lists of exactly MaxBatchSize (+0/+1/x2)
	connID   uint64
	t0       time.Time // start of the case on the virtual clock
	snapMu   sync.Mutex
	snapReqs []string // (time, newest crumb, crumb served) for every request to the binary snapshot cache, in order
	snapOld  bool
	snapNth  bool
	lats     []string // per connection (same order as clients): newest crumb seen at each step of the delta loop
}

func (c *caseRun) tag(s string) { c.tags[s] = true }

func (c *caseRun) genUpdate() api.Update {
	r := c.r
	ki := r.intn(len(c.keys))
	if r.pct(40) {
		ki = r.intn(3) // concentrate on a few keys so that histories per key are long
	}
	if c.mode == 2 {
		ki = 0
	}
	k := c.keys[ki]
	c.rev++
	rev := strconv.Itoa(c.rev)
	cur, ex := c.exists[ki]
	u := api.Update{KVPair: model.KVPair{Key: k.key, Revision: rev}}
	if r.pct(8) {
		u.TTL = time.Duration(1+r.intn(2)) * time.Second
	}
	if c.mode == 2 && r.pct(85) {
		// the same value again and again: every one but the first is skipped by the cache
		u.Value = mkValue(k, 0, rev)
		u.UpdateType = api.UpdateTypeKVUpdated
		if !ex {
			u.UpdateType = api.UpdateTypeKVNew
		}
		c.exists[ki] = 0
		return u
	}
	switch p := r.intn(100); {
	case p < 80: // what a healthy syncer sends
		if !ex {
			v := r.intn(3)
			u.Value, u.UpdateType = mkValue(k, v, rev), api.UpdateTypeKVNew
			c.exists[ki] = v
		} else if r.pct(25) {
			u.UpdateType = api.UpdateTypeKVDeleted
			delete(c.exists, ki)
			c.tag("upd:delete")
		} else {
			v := cur
			if r.pct(60) {
				v = r.intn(3)
			}
			if v == cur {
				c.tag("upd:same-value")
			}
			u.Value, u.UpdateType = mkValue(k, v, rev), api.UpdateTypeKVUpdated
			c.exists[ki] = v
		}
	case p < 86: // resync: "new" for a key the cache already holds, possibly unchanged
		v := r.intn(3)
		if ex && r.pct(60) {
			v = cur
		}
		u.Value, u.UpdateType = mkValue(k, v, rev), api.UpdateTypeKVNew
		c.exists[ki] = v
		c.tag("upd:new-on-existing")
	case p < 90: // delete of something that may not exist
		u.UpdateType = api.UpdateTypeKVDeleted
		delete(c.exists, ki)
		c.tag("upd:blind-delete")
	case p < 94: // validation failure: nil value with a non-delete type
		if r.pct(50) {
			u.UpdateType = api.UpdateTypeKVNew
		} else {
			u.UpdateType = api.UpdateTypeKVUpdated
		}
		delete(c.exists, ki)
		c.tag("upd:nil-value-not-delete")
	case p < 97: // "updated" for a key that may be absent
		v := r.intn(3)
		u.Value, u.UpdateType = mkValue(k, v, rev), api.UpdateTypeKVUpdated
		c.exists[ki] = v
		c.tag("upd:updated-blind")
	default:
		v := r.intn(3)
		u.Value, u.UpdateType = mkValue(k, v, rev), api.UpdateTypeKVUnknown
		c.exists[ki] = v
		c.tag("upd:unknown-type")
	}
	return u
}

func (c *caseRun) nextStatus() api.SyncStatus {
	r := c.r
	switch c.status {
	case api.WaitForDatastore:
		if r.pct(85) {
			return api.ResyncInProgress
		}
		return api.InSync
	case api.ResyncInProgress:
		if r.pct(85) {
			return api.InSync
		}
		return api.ResyncInProgress // repeated
	default:
		if r.pct(70) {
			return api.ResyncInProgress
		}
		if r.pct(50) {
			return api.WaitForDatastore
		}
		return api.InSync
	}
}

// push: queue a few objects on the cache's input channel, then pump the main loop until the queue is empty.
func (c *caseRun) push(forceStatus bool) {
	r := c.r
	room := c.cache.VerifQueueRoom()
	nev := 1 + r.intn(4)
	if nev > room {
		nev = room
	}
	var evs []string
	for e := 0; e < nev; e++ {
		if forceStatus || r.pct(22) || c.mode == 1 {
			forceStatus = false
			s := c.nextStatus()
			c.status = s
			c.cache.OnStatusUpdated(s)
			evs = append(evs, "(ES "+statusNames[s]+")")
			continue
		}
		n := 1 + r.intn(3)
		if c.mode == 3 {
			mb := c.maxBatch
			if mb == 0 || mb > 8 {
				mb = 8
			}
			n = []int{mb, mb + 1, 2 * mb, 2*mb + 1}[r.intn(4)]
		} else if r.pct(15) {
			n = 4 + r.intn(9)
			c.tag("push:large-update-list")
		}
		us := make([]api.Update, n)
		ts := make([]string, n)
		for i := range us {
			us[i] = c.genUpdate()
			ts[i] = c.tab.updTerm(c.pathID, us[i])
		}
		c.nUpd += n
		c.cache.OnUpdates(us)
		evs = append(evs, "(EU ["+strings.Join(ts, "; ")+"])")
	}
	c.cache.VerifPump(c.ctx)
	c.pushes = append(c.pushes, "["+strings.Join(evs, "; ")+"]")
	synctest.Wait()
}

// forceCrumb publishes a status that differs from the newest crumb's, which always makes a new crumb.
func (c *caseRun) forceCrumb() {
	s := api.ResyncInProgress
	if c.cache.CurrentBreadcrumb().SyncStatus == api.ResyncInProgress {
		s = api.InSync
	}
	c.status = s
	c.cache.OnStatusUpdated(s)
	c.cache.VerifPump(c.ctx)
	c.pushes = append(c.pushes, "[(ES "+statusNames[s]+")]")
	synctest.Wait()
}

func (c *caseRun) sleep() {
	d := []time.Duration{0, time.Millisecond, 20 * time.Millisecond, 150 * time.Millisecond, 400 * time.Millisecond}[c.r.intn(5)]
	if d > 0 {
		time.Sleep(d)
		synctest.Wait()
	}
}

// one connection: real server-side handler and real client on the two ends of a pipe
type vclient struct {
	c        *caseRun
	streamed bool
	lg       *vlog
	lc       *logCache
	ls       *logSnap
	rec      *vrec
	srvWG    sync.WaitGroup
	clWG     sync.WaitGroup
	clCancel context.CancelFunc
	clDone   atomic.Bool
	freed    bool
}

func (c *caseRun) startClient() *vclient {
	r := c.r
	v := &vclient{c: c, streamed: r.pct(50), lg: &vlog{}}
	sEnd, cEnd := net.Pipe()
	connCxt, cancel := context.WithCancel(c.ctx)
	lw := &logWriter{w: sEnd, l: v.lg}
	v.lc = &logCache{inner: c.cache, l: v.lg}
	v.ls = &logSnap{inner: c.srv.binSnapCaches[syncproto.CompressionSnappy][syncproto.SyncerTypeFelix], l: v.lg, c: c}
	c.connID++
	// as in Server.serve
	conn := &connection{
		ID:        c.connID,
		config:    &c.srv.config,
		allCaches: map[syncproto.SyncerType]BreadcrumbProvider{syncproto.SyncerTypeFelix: v.lc},
		allSnapshotters: map[syncproto.CompressionAlgorithm]map[syncproto.SyncerType]snapshotCache{
			syncproto.CompressionSnappy: {syncproto.SyncerTypeFelix: v.ls}},
		cxt:         connCxt,
		cancelCxt:   cancel,
		conn:        sEnd,
		connW:       lw,
		logCxt:      log.WithField("connID", c.connID),
		encoder:     gob.NewEncoder(lw),
		flushWriter: func() error { return nil },
		readC:       make(chan any),
		allMetrics:  c.srv.perSyncerConnMetrics,
	}
	v.srvWG.Add(1)
	go func() { _ = conn.handle(&v.srvWG) }()

	v.rec = &vrec{freeC: make(chan struct{}), permits: make(chan struct{}), tab: c.tab, pathID: c.pathID}
	cl := syncclient.VerifNewOnConn(cEnd, v.rec, &syncclient.Options{
		ReadTimeout: 1000 * time.Hour, WriteTimeout: 1000 * time.Hour,
		SyncerType: syncproto.SyncerTypeFelix, DisableDecoderRestart: v.streamed,
	})
	clCtx, clCancel := context.WithCancel(c.ctx)
	v.clCancel = clCancel
	v.clWG.Add(1)
	go func() { defer v.clWG.Done(); cl.VerifRun(clCtx); v.clDone.Store(true) }()
	synctest.Wait()
	if v.streamed {
		c.tag("client:streamed-snapshot")
	} else {
		c.tag("client:binary-snapshot")
	}
	return v
}

// permit lets the client take one more callback, if one is waiting
func (v *vclient) permit() bool {
	select {
	case v.rec.permits <- struct{}{}:
		synctest.Wait()
		return true
	default:
		return false
	}
}

func (v *vclient) permits(k int) {
	for ; k > 0 && v.permit(); k-- {
	}
}

// free lets the client read without being held back from now on
func (v *vclient) free() {
	if !v.freed {
		v.freed = true
		v.rec.free.Store(true)
		close(v.rec.freeC)
	}
	synctest.Wait()
}

// finish: the client has been freed and everything is quiescent, i.e. it has read everything published so far
func (v *vclient) finish() {
	c := v.c
	v.lg.mu.Lock()
	join := v.lc.firstSeq
	if !v.streamed {
		join = v.ls.seq
	}
	snapOK := (v.streamed && v.lc.calls > 0) || (!v.streamed && v.ls.used)
	v.lg.mu.Unlock()
	dead := v.clDone.Load()
	npush := len(c.pushes)
	v.clCancel()
	synctest.Wait()
	c.cache.VerifWake()
	v.srvWG.Wait()
	v.clWG.Wait()
	synctest.Wait()

	v.rec.mu.Lock()
	obs := append([]string(nil), v.rec.obs...)
	if v.rec.nInSync > 0 {
		c.tag("client:told-insync")
	}
	v.rec.mu.Unlock()
	if dead || !snapOK {
		obs = append(obs, "CDead")
	}
	gs, lats := v.lg.groups(v.streamed)
	lstr := make([]string, len(lats))
	for i, l := range lats {
		lstr[i] = strconv.FormatUint(l, 10)
	}
	c.lats = append(c.lats, "["+strings.Join(lstr, "; ")+"]")
	gstr := make([]string, len(gs))
	multi := false
	for i, g := range gs {
		gstr[i] = strconv.Itoa(g)
		if g > 1 {
			multi = true
		}
	}
	if multi {
		c.tag("client:coalesced-crumbs")
	}
	if join > 0 {
		c.tag("client:joined-after-start")
	}
	chunk := c.srv.config.MaxMessageSize // after ApplyDefaults
	if !v.streamed {
		chunk = 1000
	}
	c.clients = append(c.clients, fmt.Sprintf("(mkCl %d %d %d [%s] [%s])", join, chunk, npush,
		strings.Join(gstr, "; "), strings.Join(obs, "; ")))
}

func (c *caseRun) pushMaybeAfterSleep() {
	if c.r.pct(70) {
		c.sleep() // crumbs of different ages: this is what makes the sender coalesce
	}
	c.push(false)
}

// client: connect, read with a random schedule while the history continues, drain, close.
func (c *caseRun) client() {
	r := c.r
	v := c.startClient()
	if r.pct(70) {
		c.tag("client:slow-reader")
		// usually get past the handshake and (part of) the snapshot first
		v.permits(r.intn(7))
		steps := 2 + r.intn(10)
		for s := 0; s < steps; s++ {
			switch p := r.intn(100); {
			case p < 45:
				v.permits(1 + r.intn(4))
			case p < 85:
				c.pushMaybeAfterSleep()
			default:
				c.sleep()
			}
		}
	} else {
		c.tag("client:fast-reader")
		v.free()
		for s := r.intn(5); s > 0; s-- {
			if r.pct(30) {
				c.sleep()
			}
			c.push(false)
		}
	}
	v.free()
	v.finish()
}

// two connections open at the same time, reading at different speeds from the same cache (and, for pre-built
// snapshots, sharing one snapshot)
func (c *caseRun) concurrentClients() {
	r := c.r
	c.tag("client:two-concurrent")
	a := c.startClient()
	a.permits(r.intn(6))
	for n := r.intn(3); n > 0; n-- {
		c.pushMaybeAfterSleep()
	}
	b := c.startClient()
	steps := 3 + r.intn(10)
	for s := 0; s < steps; s++ {
		switch p := r.intn(100); {
		case p < 30:
			a.permits(1 + r.intn(4))
		case p < 60:
			b.permits(1 + r.intn(4))
		case p < 90:
			c.pushMaybeAfterSleep()
		case p < 95:
			a.free()
		default:
			c.sleep()
		}
	}
	a.free()
	b.free()
	// both have now read everything; close one after the other
	if r.pct(50) {
		a.finish()
		b.finish()
	} else {
		b.finish()
		a.finish()
	}
}

func (c *caseRun) crumbsTerm() (string, int) {
	var cs []string
	for b := c.first; b != nil; b = b.VerifNext() {
		var kvs, ds []string
		b.KVs.Ascend(func(e syncproto.SerializedUpdate) bool {
			kvs = append(kvs, c.tab.suTerm(c.pathID, e))
			return true
		})
		for _, d := range b.Deltas {
			ds = append(ds, c.tab.suTerm(c.pathID, d))
		}
		dump := "None"
		if b.SequenceNumber%4 == 0 || b.VerifNext() == nil {
			dump = "(Some ([" + strings.Join(kvs, "; ") + "], [" + strings.Join(ds, "; ") + "]))"
		}
		cs = append(cs, fmt.Sprintf("(mkOC %s %s)", dump, statusNames[b.SyncStatus]))
	}
	return "[" + strings.Join(cs, "; ") + "]", len(cs)
}

func runCase(t *testing.T, seed uint64) vline {
	var out vline
	synctest.Test(t, func(t *testing.T) {
		r := &vrng{s: seed}
		c := &caseRun{r: r, keys: keyPool(), tab: &valTab{ids: map[string]int{}}, exists: map[int]int{}, tags: map[string]bool{}}
		c.pathID = map[string]int{}
		for i, k := range c.keys {
			c.pathID[k.path] = i + 1
		}
		ctx, cancel := context.WithCancel(context.Background())
		defer cancel()
		c.ctx = ctx
		c.t0 = time.Now()
		c.maxBatch = []int{1, 2, 3, 5, 8, 100, 0, 1, 2}[r.intn(9)] // 0 = default (100)
		c.maxMsg = []int{1, 2, 3, 5, 100, 0}[r.intn(6)]            // 0 = default (100)
		c.tag(fmt.Sprintf("cfg:maxBatch=%d", c.maxBatch))
		c.tag(fmt.Sprintf("cfg:maxMsg=%d", c.maxMsg))
		switch p := r.intn(100); {
		case p < 4:
			c.mode = 1
			c.tag("stream:statuses-only")
		case p < 10:
			c.mode = 2
			c.tag("stream:mostly-noop")
		case p < 18:
			c.mode = 3
			c.tag("stream:exact-batch-multiples")
		default:
			c.tag("stream:mixed")
		}
		c.cache = snapcache.New(snapcache.Config{MaxBatchSize: c.maxBatch, WakeUpInterval: 1000 * time.Hour, Name: "felix"})
		c.first = c.cache.CurrentBreadcrumb()
		c.srv = New(map[syncproto.SyncerType]BreadcrumbProvider{syncproto.SyncerTypeFelix: c.cache}, Config{
			MaxMessageSize:          c.maxMsg,
			PingInterval:            1000 * time.Hour,
			PongTimeout:             10000 * time.Hour,
			WriteTimeout:            1000 * time.Hour,
			MaxFallBehind:           1000 * time.Hour,
			BinarySnapshotTimeout:   []time.Duration{time.Millisecond, 100 * time.Millisecond, time.Second}[r.intn(3)],
			MinBatchingAgeThreshold: []time.Duration{time.Nanosecond, 10 * time.Millisecond, 100 * time.Millisecond}[r.intn(3)],
		})
		// history before the first client
		for n := r.intn(5); n > 0; n-- {
			c.push(false)
			c.sleep()
		}
		ncl := 1
		if r.pct(45) {
			ncl = 2 + r.intn(2)
		}
		for i := 0; i < ncl; i++ {
			if r.pct(25) {
				c.concurrentClients()
			} else {
				c.client()
			}
			for n := r.intn(3); n > 0; n-- {
				c.push(false)
				c.sleep()
			}
		}
		// let the binary snapshot cache's goroutine finish: past its validity time it waits for one more crumb
		time.Sleep(2 * time.Second)
		c.forceCrumb()
		time.Sleep(2 * time.Second)
		synctest.Wait()
		c.cache.VerifStop()
		crumbs, ncr := c.crumbsTerm()
		var tss []string
		for b := c.first; b != nil; b = b.VerifNext() {
			ts := int64(b.Timestamp.Sub(c.t0))
			if ts < 0 {
				ts = 0
			}
			tss = append(tss, strconv.FormatInt(ts, 10))
		}
		c.snapMu.Lock()
		if c.snapOld {
			c.tag("snapcache:older-crumb-served")
		}
		if c.snapNth {
			c.tag("snapcache:repeated-requests")
		}
		// the environment of the sender and of the snapshot cache: thresholds, crumb timestamps, what was newest when
		// each of them looked
		coq := fmt.Sprintf("(mkCase2 (mkCase %d [%s] %s [%s]) %d %d %d [%s] [%s] [%s])%%N", c.maxBatch, strings.Join(c.pushes, "; "), crumbs,
			strings.Join(c.clients, "; "), int64(c.srv.config.MinBatchingAgeThreshold), c.srv.config.MaxMessageSize,
			int64(c.srv.config.BinarySnapshotTimeout), strings.Join(tss, "; "), strings.Join(c.lats, "; "), strings.Join(c.snapReqs, "; "))
		c.snapMu.Unlock()
		var tags []string
		for k := range c.tags {
			tags = append(tags, k)
		}
		sort.Strings(tags)
		nt := c.nUpd >= 3 && ncr >= 3 && (c.tags["client:joined-after-start"] || c.tags["client:coalesced-crumbs"])
		out = vline{Coq: coq, NT: nt, Key: fmt.Sprintf("%d|%s|%s", c.maxBatch, strings.Join(c.pushes, ";"), strings.Join(c.clients, ";")),
			Sample: map[string]any{"maxBatch": c.maxBatch, "maxMsg": c.maxMsg, "pushes": c.pushes, "clients": c.clients, "crumbs": ncr},
			Tags:   tags}
	})
	return out
}

var (
	verifN    = flag.Int("verif.n", 0, "number of cases (0: skip unless VERIF_N is set)")
	verifSeed = flag.Uint64("verif.seed", 1, "seed")
)

func TestVerifC24(t *testing.T) {
	log.SetLevel(log.PanicLevel)
	log.SetOutput(io.Discard)
	n := *verifN
	seed := *verifSeed
	if n <= 0 {
		n, _ = strconv.Atoi(os.Getenv("VERIF_N"))
		if s, err := strconv.ParseUint(os.Getenv("VERIF_SEED"), 10, 64); err == nil {
			seed = s
		}
	}
	if n <= 0 {
		t.Skip("no cases requested")
	}
	var w io.Writer = os.Stdout
	if outPath := os.Getenv("VERIF_OUT"); outPath != "" {
		f, err := os.Create(outPath)
		if err != nil {
			t.Fatal(err)
		}
		defer f.Close()
		w = f
	}
	enc := json.NewEncoder(w)
	master := &vrng{s: seed}
	for i := 0; i < n; i++ {
		l := runCase(t, master.next())
		if err := enc.Encode(l); err != nil {
			t.Fatal(err)
		}
	}
}
