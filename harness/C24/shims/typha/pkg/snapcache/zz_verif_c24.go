//go:build verif

package snapcache

import "context"

// VerifPump runs the cache's own main-loop body (fillBatchFromInputQueue + publishBreadcrumbs) synchronously on the
// caller's goroutine until the input queue is empty.  It replaces only the `go c.loop(ctx)` scheduling: the batching of
// the queue, the no-op skip, the split into MaxBatchSize crumbs and the status placement are the real code.
// Returns the number of loop iterations.
func (c *Cache) VerifPump(ctx context.Context) int {
	n := 0
	for len(c.inputC) > 0 {
		if err := c.fillBatchFromInputQueue(ctx); err != nil {
			return n
		}
		c.publishBreadcrumbs()
		n++
	}
	return n
}

// VerifQueueRoom is how many more objects OnUpdates/OnStatusUpdated accept without blocking.
func (c *Cache) VerifQueueRoom() int { return cap(c.inputC) - len(c.inputC) }

// VerifWake is the wakeUpTicker branch of the main loop: wake every follower blocked in Breadcrumb.Next so that it can
// notice a cancelled context.
func (c *Cache) VerifWake() { c.breadcrumbCond.Broadcast() }

// VerifStop stops the cache's ticker goroutine (the cache has no Stop of its own).
func (c *Cache) VerifStop() { c.wakeUpTicker.Stop() }

// VerifNext is a non-blocking peek at the next crumb of the chain (nil at the head).
func (b *Breadcrumb) VerifNext() *Breadcrumb { return b.loadNext() }
