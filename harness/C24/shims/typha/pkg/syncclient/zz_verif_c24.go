//go:build verif

package syncclient

import (
	"context"
	"net"
	"sync"

	log "github.com/sirupsen/logrus"

	"github.com/projectcalico/calico/libcalico-go/lib/backend/api"
	"github.com/projectcalico/calico/typha/pkg/discovery"
)

// VerifNewOnConn builds a SyncerClient whose connection is the given (already established) net.Conn, i.e. what
// connect() leaves behind, without discovery/dialling/TLS.
func VerifNewOnConn(conn net.Conn, cbs api.SyncerCallbacks, options *Options) *SyncerClient {
	if options == nil {
		options = &Options{}
	}
	sc := &SyncerClient{
		logCxt:     log.WithFields(log.Fields{"type": options.SyncerType}),
		callbacks:  cbs,
		myVersion:  "verif",
		myHostname: "verif-host",
		myInfo:     "verif",
		options:    options,
		connection: conn,
		connR:      conn,
		connInfo:   &discovery.Typha{Addr: "pipe"},
	}
	sc.refreshConnID()
	return sc
}

// VerifRun is the tail of startOneConnection: the real main loop (handshake + decode loop) plus the goroutine that
// closes the connection when the context ends.  Returns when the loop has exited.
func (s *SyncerClient) VerifRun(cxt context.Context) {
	connCtx, cancelFn := context.WithCancel(cxt)
	var connFinished sync.WaitGroup
	connFinished.Add(1)
	go s.loop(connCtx, cancelFn, &connFinished)
	connFinished.Go(func() {
		<-connCtx.Done()
		_ = s.connection.Close()
	})
	connFinished.Wait()
}
