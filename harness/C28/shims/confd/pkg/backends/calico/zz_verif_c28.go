//go:build verif

package calico

import (
	"encoding/json"
	"fmt"

	v3 "github.com/projectcalico/api/pkg/apis/projectcalico/v3"
	log "github.com/sirupsen/logrus"

	"github.com/projectcalico/calico/confd/pkg/backends/types"
	"github.com/projectcalico/calico/libcalico-go/lib/backend/model"
)

// VerifC28Result is what confd decides for one IP pool under one BGPConfiguration.
type VerifC28Result struct {
	PolicyIPIP, PolicyNoEncap bool     // clusterRoutePolicyFromBGPConfig
	ProgramsPool              bool     // policy.programsPool(pool)
	KernelFilter              []string // BirdBGPConfig.KernelFilterForIPPools produced by processIPPools
	IBGPExportFilter          []string // BirdBGPConfig.IBGPExportFilterForTunnelRoutes
}

// VerifC28 runs the real clusterRoutePolicyFromBGPConfig / programsPool and the real processIPPools (over a client
// whose cache holds exactly this pool and the local node's subnet) for the given default BGPConfiguration.
func VerifC28(cfg *v3.BGPConfiguration, pool model.IPPool, ipVersion int) (VerifC28Result, error) {
	var r VerifC28Result
	pol := clusterRoutePolicyFromBGPConfig(cfg, log.NewEntry(log.StandardLogger()))
	r.PolicyIPIP, r.PolicyNoEncap = pol.ipip, pol.noEncap
	r.ProgramsPool = pol.programsPool(&pool)

	raw, err := json.Marshal(&pool)
	if err != nil {
		return r, err
	}
	NodeName = "verif-node"
	c := &client{cache: map[string]string{}, peeringCache: map[string]string{}}
	ones, _ := pool.CIDR.Mask.Size()
	c.cache[fmt.Sprintf("/calico/v1/ipam/v%d/pool/%s-%d", ipVersion, pool.CIDR.IP.String(), ones)] = string(raw)
	c.cache["/calico/bgp/v1/host/verif-node/network_v4"] = "172.16.0.0/24"
	c.cache["/calico/bgp/v1/host/verif-node/network_v6"] = "fd00:172::/64"
	config := &types.BirdBGPConfig{}
	if err := c.processIPPools(&processorContext{globalBGPConfig: cfg}, config, ipVersion); err != nil {
		return r, err
	}
	r.KernelFilter = config.KernelFilterForIPPools
	r.IBGPExportFilter = config.IBGPExportFilterForTunnelRoutes
	return r, nil
}
