//go:build verif

// C28 history stream: drives the real calc.EncapsulationResolver and calc.L3RouteResolver, and through them the real
// IPIP / VXLAN / no-encap managers (each holding the shared routeManager), through histories in which IP pools change
// ipipMode / vxlanMode, are deleted while their blocks remain, come back, and blocks come and go.  Three anchor pools (one
// per class) keep Felix's Encapsulation flags constant, so Felix would NOT be restarted: the running managers have to
// follow the pool's current mode on their own.  After every operation the destinations each manager holds for programming
// (routeManager.routesByDest) and what the IPIP manager handed to its (mock) route table are recorded.
// Output: JSON lines (one history per line, as a Coq term of type Verif.C28.Hist.hcase) in the file $VERIF_C28_OUT.
package intdataplane

import (
	"encoding/json"
	"fmt"
	"io"
	"net"
	"os"
	"sort"
	"strconv"
	"strings"
	"testing"

	"github.com/onsi/gomega"
	"github.com/sirupsen/logrus"
	"github.com/vishvananda/netlink"

	"github.com/projectcalico/calico/felix/calc"
	"github.com/projectcalico/calico/felix/config"
	dpsets "github.com/projectcalico/calico/felix/dataplane/ipsets"
	"github.com/projectcalico/calico/felix/dataplane/linux/dataplanedefs"
	"github.com/projectcalico/calico/felix/netlinkshim/mocknetlink"
	"github.com/projectcalico/calico/felix/proto"
	"github.com/projectcalico/calico/felix/routetable"
	"github.com/projectcalico/calico/felix/rules"
	"github.com/projectcalico/calico/lib/logrusr"
	"github.com/projectcalico/calico/libcalico-go/lib/apis/internalapi"
	"github.com/projectcalico/calico/libcalico-go/lib/backend/api"
	"github.com/projectcalico/calico/libcalico-go/lib/backend/encap"
	"github.com/projectcalico/calico/libcalico-go/lib/backend/model"
	cnet "github.com/projectcalico/calico/libcalico-go/lib/net"
)

type verifRng struct{ s uint64 }

func (r *verifRng) next() uint64 {
	r.s += 0x9e3779b97f4a7c15
	z := r.s
	z = (z ^ (z >> 30)) * 0xbf58476d1ce4e5b9
	z = (z ^ (z >> 27)) * 0x94d049bb133111eb
	return z ^ (z >> 31)
}
func (r *verifRng) intn(n int) int { return int(r.next() % uint64(n)) }

type verifSink struct {
	managers []Manager
	encaps   []config.Encapsulation
	msgs     []string // Coq terms of the messages delivered since the last snapshot
	dstID    map[string]int
}

func (s *verifSink) id(dst string) int {
	if i, ok := s.dstID[dst]; ok {
		return i
	}
	i := len(s.dstID)
	s.dstID[dst] = i
	return i
}

var verifPT = map[proto.IPPoolType]string{proto.IPPoolType_NONE: "TNone", proto.IPPoolType_NO_ENCAP: "TNoEncap", proto.IPPoolType_VXLAN: "TVxlan", proto.IPPoolType_IPIP: "TIpip"}

func verifB(b bool) string {
	if b {
		return "true"
	}
	return "false"
}

func (s *verifSink) OnRouteUpdate(u *proto.RouteUpdate) {
	s.msgs = append(s.msgs, fmt.Sprintf("MUpd %d %s %s %s %s", s.id(u.Dst), verifPT[u.IpPoolType],
		verifB(u.Types&proto.RouteType_REMOTE_WORKLOAD != 0), verifB(u.Types&proto.RouteType_REMOTE_TUNNEL != 0), verifB(u.Borrowed)))
	for _, m := range s.managers {
		m.OnUpdate(u)
	}
}

func (s *verifSink) OnRouteRemove(dst string) {
	s.msgs = append(s.msgs, fmt.Sprintf("MRem %d", s.id(dst)))
	for _, m := range s.managers {
		m.OnUpdate(&proto.RouteRemove{Dst: dst})
	}
}

func (s *verifSink) OnEncapUpdate(e config.Encapsulation) { s.encaps = append(s.encaps, e) }

type verifMode struct {
	coq         string
	ipip, vxlan encap.Mode
}

var verifModes = []verifMode{{"MVxlan", encap.Never, encap.Always}, {"MVxlanCross", encap.Never, encap.CrossSubnet},
	{"MIpip", encap.Always, encap.Never}, {"MIpipCross", encap.CrossSubnet, encap.Never}, {"MNone", encap.Never, encap.Never}}

func verifPoolUpdate(cidr string, m *verifMode) api.Update {
	ipNet := cnet.MustParseCIDR(cidr)
	kv := model.KVPair{Key: model.IPPoolKey{CIDR: model.PrefixFromIPNet(ipNet)}}
	if m != nil {
		kv.Value = &model.IPPool{CIDR: ipNet, IPIPMode: m.ipip, VXLANMode: m.vxlan, IPAM: true}
	}
	return api.Update{KVPair: kv}
}

func verifBlockUpdate(cidr, host string, present bool) api.Update {
	ipNet := cnet.MustParseCIDR(cidr)
	kv := model.KVPair{Key: model.BlockKey{CIDR: model.PrefixFromIPNet(ipNet)}}
	if present {
		affinity := "host:" + host
		ones, bits := ipNet.Mask.Size()
		size := 1 << (bits - ones)
		unallocated := make([]int, size)
		for i := range unallocated {
			unallocated[i] = i
		}
		kv.Value = &model.AllocationBlock{CIDR: ipNet, Affinity: &affinity, Allocations: make([]*int, size), Unallocated: unallocated}
	}
	return api.Update{KVPair: kv}
}

func verifNodeUpdate(name, addr string) api.Update {
	node := internalapi.NewNode()
	node.Name = name
	node.Spec.BGP = &internalapi.NodeBGPSpec{IPv4Address: addr}
	return api.Update{KVPair: model.KVPair{Key: model.ResourceKey{Kind: internalapi.KindNode, Name: name}, Value: node}}
}

func verifKeys(s *verifSink, m map[string]*proto.RouteUpdate) string {
	var ids []int
	for k := range m {
		ids = append(ids, s.id(k))
	}
	sort.Ints(ids)
	var q []string
	for _, i := range ids {
		q = append(q, strconv.Itoa(i))
	}
	return "[" + strings.Join(q, "; ") + "]"
}

type verifPool struct {
	cidr   string
	mode   *verifMode // nil: deleted
	blocks []string   // candidate blocks inside
}

func TestVerifC28History(t *testing.T) {
	out := os.Getenv("VERIF_C28_OUT")
	if out == "" {
		t.Skip("VERIF_C28_OUT not set")
	}
	g := gomega.NewWithT(t)
	gomega.RegisterTestingT(t)
	logrus.SetOutput(io.Discard)
	seed, _ := strconv.ParseUint(os.Getenv("VERIF_SEED"), 10, 64)
	nHist, _ := strconv.Atoi(os.Getenv("VERIF_N"))
	if nHist <= 0 {
		nHist = 3
	}
	f, err := os.Create(out)
	g.Expect(err).NotTo(gomega.HaveOccurred())
	defer f.Close()
	enc := json.NewEncoder(f)
	r := &verifRng{s: seed*7919 + 13}

	for _, setting := range []string{"EnabledIPIPOnly", "Enabled", "Disabled", "EnabledNoEncapOnly"} {
		for h := 0; h < nHist; h++ {
			cfg := config.New()
			_, err := cfg.UpdateFrom(map[string]string{"ProgramClusterRoutes": setting}, config.DatastoreGlobal)
			g.Expect(err).NotTo(gomega.HaveOccurred())
			sink := &verifSink{dstID: map[string]int{}}
			encapResolver := calc.NewEncapsulationResolver(cfg, sink)
			l3rr := calc.NewL3RouteResolver("node1", sink, "CalicoIPAM")
			l3rr.OnAlive = func() {}
			onPool := func(u api.Update) {
				encapResolver.OnPoolUpdate(u)
				l3rr.OnPoolUpdate(u)
			}
			// anchors: one pool of each class with a remote block, never touched: Encapsulation stays constant
			anchors := []verifPool{{"10.10.0.0/16", &verifModes[2], []string{"10.10.1.0/26"}}, {"10.11.0.0/16", &verifModes[0], []string{"10.11.1.0/26"}},
				{"10.12.0.0/16", &verifModes[4], []string{"10.12.1.0/26"}}}
			pools := []*verifPool{{"10.20.0.0/16", nil, []string{"10.20.1.0/26", "10.20.2.0/26"}}, {"10.21.0.0/16", nil, []string{"10.21.1.0/26"}}}
			blockHost := map[string]string{"10.20.1.0/26": "node2", "10.20.2.0/26": "node3", "10.21.1.0/26": "node3"}
			blockOn := map[string]bool{}
			for _, a := range anchors {
				blockOn[a.blocks[0]] = true
			}

			nodes := [][2]string{{"node1", "172.0.0.2/24"}, {"node2", "172.0.2.2/24"}, {"node3", "172.0.0.3/24"}}
			for _, n := range nodes {
				l3rr.OnResourceUpdate(verifNodeUpdate(n[0], n[1]))
			}
			for _, a := range anchors {
				onPool(verifPoolUpdate(a.cidr, a.mode))
			}
			encapResolver.OnStatusUpdate(api.InSync)
			g.Expect(sink.encaps).NotTo(gomega.BeEmpty())
			startEncap := sink.encaps[len(sink.encaps)-1]

			// the dataplane side, created the way int_dataplane.go does for this configuration and start-of-day Encapsulation
			nl := mocknetlink.New()
			_, err = nl.NewMockNetlink()
			g.Expect(err).NotTo(gomega.HaveOccurred())
			nl.ImmediateLinkUp = true
			eth0 := nl.AddIface(2, "eth0", true, true)
			g.Expect(nl.AddrAdd(eth0, &netlink.Addr{IPNet: &net.IPNet{IP: net.IPv4(172, 0, 0, 2)}})).To(gomega.Succeed())
			dpConfig := Config{MaxIPSetSize: 1024, Hostname: "node1",
				RulesConfig:         rules.Config{IPIPTunnelAddress: net.ParseIP("10.10.0.1"), VXLANVNI: 1, VXLANPort: 20, IPIPEnabled: startEncap.IPIPEnabled, VXLANEnabled: startEncap.VXLANEnabled},
				DeviceRouteProtocol: dataplanedefs.DefaultRouteProto, NoEncapNeeded: startEncap.NoEncapNeeded,
				ProgramIPIPClusterRoutes: cfg.ProgramIPIPClusterRoutes(), ProgramNoEncapClusterRoutes: cfg.ProgramNoEncapClusterRoutes()}
			rec := logrusr.NewSummarizer("verif-c28")
			var ipipMgr *ipipManager
			var vxMgr *vxlanManager
			var neMgr *noEncapManager
			rtIPIP := &mockRouteTable{currentRoutes: map[string][]routetable.Target{}}
			if dpConfig.ProgramNoEncapClusterRoutes && dpConfig.NoEncapNeeded {
				neMgr = newNoEncapManagerWithSims(&mockRouteTable{currentRoutes: map[string][]routetable.Target{}}, 4, dpConfig, rec, nl)
				sink.managers = append(sink.managers, neMgr)
			}
			if dpConfig.RulesConfig.VXLANEnabled {
				vxMgr = newVXLANManagerWithShims(dpsets.NewMockIPSets(), &mockRouteTable{currentRoutes: map[string][]routetable.Target{}}, &mockVXLANFDB{},
					dataplanedefs.VXLANIfaceNameV4, 4, 1400, dpConfig, rec, nl)
				sink.managers = append(sink.managers, vxMgr)
			}
			if dpConfig.RulesConfig.IPIPEnabled {
				ipipMgr = newIPIPManagerWithShims(rtIPIP, dataplanedefs.IPIPIfaceName, 4, 1400, dpConfig, rec, nl)
				sink.managers = append(sink.managers, ipipMgr)
			}
			for _, n := range nodes {
				for _, m := range sink.managers {
					m.OnUpdate(&proto.HostMetadataUpdate{Hostname: n[0], Ipv4Addr: n[1][:len(n[1])-3]})
				}
			}
			// the anchors' routes were emitted before the managers existed: replay them as Felix does at start of day
			// (the calc graph is fed after the dataplane is up), by re-announcing the anchors' blocks now.
			sink.msgs = nil
			for _, a := range anchors {
				l3rr.OnBlockUpdate(verifBlockUpdate(a.blocks[0], "node2", true))
			}

			var steps []string
			ops := []string{}
			snapshot := func(op string) {
				if ipipMgr != nil {
					g.Expect(ipipMgr.CompleteDeferredWork()).To(gomega.Succeed())
				}
				g.Expect(sink.encaps[len(sink.encaps)-1]).To(gomega.Equal(startEncap), "Encapsulation must not change during a history")
				var ps []string
				for _, p := range append(append([]*verifPool{}, &anchors[0], &anchors[1], &anchors[2]), pools...) {
					var bl []string
					for _, b := range p.blocks {
						if blockOn[b] {
							bl = append(bl, strconv.Itoa(sink.id(b)))
						}
					}
					mode := "None"
					if p.mode != nil {
						mode = "(Some " + p.mode.coq + ")"
					}
					ps = append(ps, "("+mode+", ["+strings.Join(bl, "; ")+"])")
				}
				tab := func(m *routeManager) string {
					if m == nil {
						return "[]"
					}
					return verifKeys(sink, m.routesByDest)
				}
				var rmNE, rmVX, rmIP *routeManager
				if neMgr != nil {
					rmNE = neMgr.routeMgr
				}
				if vxMgr != nil {
					rmVX = vxMgr.routeMgr
				}
				if ipipMgr != nil {
					rmIP = ipipMgr.routeMgr
				}
				// what the IPIP manager handed to its route table (tunnel / same-subnet classes; blackholes are local blocks)
				var rtIDs []int
				for class, byIface := range rtIPIP.currentRoutesByClass {
					if class != routetable.RouteClassIPIPTunnel && class != routetable.RouteClassIPIPSameSubnet {
						continue
					}
					for _, targets := range byIface {
						for _, tg := range targets {
							rtIDs = append(rtIDs, sink.id(tg.CIDR.String()))
						}
					}
				}
				sort.Ints(rtIDs)
				var rts []string
				for _, i := range rtIDs {
					rts = append(rts, strconv.Itoa(i))
				}
				steps = append(steps, fmt.Sprintf("Build_hstep [%s] [%s] (%s, %s, %s) [%s]", strings.Join(sink.msgs, "; "), strings.Join(ps, "; "),
					tab(rmNE), tab(rmVX), tab(rmIP), strings.Join(rts, "; ")))
				ops = append(ops, op)
				sink.msgs = nil
			}
			snapshot("start of day: anchors' blocks announced")

			nOps := 10 + r.intn(8)
			for i := 0; i < nOps; i++ {
				p := pools[r.intn(len(pools))]
				switch k := r.intn(10); {
				case k < 5: // create the pool / change its mode
					m := &verifModes[r.intn(len(verifModes))]
					p.mode = m
					onPool(verifPoolUpdate(p.cidr, m))
					snapshot(fmt.Sprintf("pool %s -> %s", p.cidr, m.coq))
				case k < 6: // delete the pool, blocks stay
					p.mode = nil
					onPool(verifPoolUpdate(p.cidr, nil))
					snapshot(fmt.Sprintf("pool %s deleted", p.cidr))
				case k < 9: // a block appears
					b := p.blocks[r.intn(len(p.blocks))]
					blockOn[b] = true
					l3rr.OnBlockUpdate(verifBlockUpdate(b, blockHost[b], true))
					snapshot(fmt.Sprintf("block %s on %s", b, blockHost[b]))
				default: // a block goes
					b := p.blocks[r.intn(len(p.blocks))]
					blockOn[b] = false
					l3rr.OnBlockUpdate(verifBlockUpdate(b, blockHost[b], false))
					snapshot(fmt.Sprintf("block %s released", b))
				}
			}
			ids := make([]string, len(sink.dstID))
			for d, i := range sink.dstID {
				ids[i] = d
			}
			coq := fmt.Sprintf("(Build_hcase %q (%s, %s) (%s, %s, %s, %s) (%s, %s, %s) [\n  %s])", setting,
				verifB(cfg.ProgramIPIPClusterRoutes()), verifB(cfg.ProgramNoEncapClusterRoutes()),
				verifB(startEncap.IPIPEnabled), verifB(startEncap.VXLANEnabled), verifB(startEncap.VXLANEnabledV6), verifB(startEncap.NoEncapNeeded),
				verifB(neMgr != nil), verifB(vxMgr != nil), verifB(ipipMgr != nil), strings.Join(steps, ";\n  "))
			enc.Encode(map[string]any{"coq": coq, "nt": true, "key": fmt.Sprintf("hist|%s|%d|%d", setting, seed, h),
				"tags":   []string{"history", "felix:" + setting},
				"sample": map[string]any{"felix": setting, "ops": ops, "destinations": ids, "steps": steps}})
		}
	}
}
