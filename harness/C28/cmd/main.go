//go:build verif

// C28 correspondence driver: complete enumeration of (Felix raw value) x (BGPConfiguration state) x (pool mode, family).
// Felix side: the real config.Config (New + UpdateFrom); the pool (with attributes disabled / natOutgoing / disableBGPExport) goes either
// through the real calc.EncapsulationResolver (syncer path: OnPoolUpdate + InSync -> OnEncapUpdate) or, as a v3 IPPool, through the real
// calc.EncapsulationCalculator (start-up path, as daemon.go does).
// confd side: the real clusterRoutePolicyFromBGPConfig / programsPool / processIPPools (shim VerifC28).
// One JSON line per case carrying the case as a Coq term of type Verif.C28.Spec.case.
package main

import (
	"encoding/json"
	"flag"
	"fmt"
	"io"
	"net/netip"
	"os"
	"strings"

	v3 "github.com/projectcalico/api/pkg/apis/projectcalico/v3"
	"github.com/sirupsen/logrus"

	confd "github.com/projectcalico/calico/confd/pkg/backends/calico"
	"github.com/projectcalico/calico/felix/calc"
	"github.com/projectcalico/calico/felix/config"
	api2 "github.com/projectcalico/calico/libcalico-go/lib/backend/api"
	"github.com/projectcalico/calico/libcalico-go/lib/backend/encap"
	"github.com/projectcalico/calico/libcalico-go/lib/backend/model"
	cnet "github.com/projectcalico/calico/libcalico-go/lib/net"
)

type rng struct{ s uint64 }

func (r *rng) next() uint64 {
	r.s += 0x9e3779b97f4a7c15
	z := r.s
	z = (z ^ (z >> 30)) * 0xbf58476d1ce4e5b9
	z = (z ^ (z >> 27)) * 0x94d049bb133111eb
	return z ^ (z >> 31)
}

type line struct {
	Coq    string         `json:"coq"`
	NT     bool           `json:"nt"`
	Key    string         `json:"key"`
	Sample map[string]any `json:"sample,omitempty"`
	Tags   []string       `json:"tags"`
}

type modeT struct {
	name, coq   string
	ipip, vxlan encap.Mode
}

var modes = []modeT{
	{"VXLAN", "MVxlan", encap.Never, encap.Always},
	{"VXLAN-CrossSubnet", "MVxlanCross", encap.Never, encap.CrossSubnet},
	{"IPIP", "MIpip", encap.Always, encap.Never},
	{"IPIP-CrossSubnet", "MIpipCross", encap.CrossSubnet, encap.Never},
	{"none", "MNone", encap.Never, encap.Never},
}

func coqStr(s string) string { return "\"" + strings.ReplaceAll(s, "\"", "\"\"") + "\"" }
func coqBool(b bool) string {
	if b {
		return "true"
	}
	return "false"
}

type felixObs struct {
	pcr           string
	ipip, noencap bool
	calc          [4]bool
}

func felixSide(raw *string, m modeT, v4 bool, fl flagsT, api bool) felixObs {
	cfg := config.New()
	kv := map[string]string{}
	if raw != nil {
		kv["ProgramClusterRoutes"] = *raw
	}
	if _, err := cfg.UpdateFrom(kv, config.DatastoreGlobal); err != nil {
		panic(fmt.Sprintf("UpdateFrom(%q): %v", kv, err))
	}
	cidr := "10.65.0.0/16"
	if !v4 {
		cidr = "fd00:65::/48"
	}
	_, n, err := cnet.ParseCIDR(cidr)
	if err != nil {
		panic(err)
	}
	var kvp *model.KVPair
	if api {
		// start-up path: pools listed through the v3 client (handleAPIPool)
		p := v3.NewIPPool()
		p.Name = "verif-pool"
		p.Spec = v3.IPPoolSpec{CIDR: cidr, IPIPMode: apiIPIP[m.ipip], VXLANMode: apiVXLAN[m.vxlan], Disabled: fl.disabled, NATOutgoing: fl.nat,
			DisableBGPExport: fl.nobgp, NodeSelector: "all()"}
		if fl.disabled && fl.nat && fl.nobgp {
			p.Spec.NodeSelector = "has(verif-label)"
		}
		kvp = &model.KVPair{Value: p}
	} else {
		// syncer / calc-graph path (handleModelPool)
		pool := &model.IPPool{CIDR: *n, IPIPMode: m.ipip, VXLANMode: m.vxlan, IPAM: true, Disabled: fl.disabled, Masquerade: fl.nat, DisableBGPExport: fl.nobgp}
		kvp = &model.KVPair{Key: model.IPPoolKey{CIDR: netip.MustParsePrefix(cidr)}, Value: pool}
	}
	if api {
		// as daemon.go does at start-up: a calculator over the listed v3 pools
		ec := calc.NewEncapsulationCalculator(cfg, &model.KVPairList{KVPairs: []*model.KVPair{kvp}})
		return felixObs{cfg.ProgramClusterRoutes, cfg.ProgramIPIPClusterRoutes(), cfg.ProgramNoEncapClusterRoutes(),
			[4]bool{ec.IPIPEnabled(), ec.VXLANEnabled(), ec.VXLANEnabledV6(), ec.NoEncapNeeded()}}
	}
	// as the calculation graph does: the EncapsulationResolver fed by the syncer, reporting through OnEncapUpdate
	cb := &encapSink{}
	res := calc.NewEncapsulationResolver(cfg, cb)
	res.OnPoolUpdate(api2.Update{KVPair: *kvp, UpdateType: api2.UpdateTypeKVNew})
	res.OnStatusUpdate(api2.InSync)
	if cb.n != 1 {
		panic(fmt.Sprintf("EncapsulationResolver reported %d times", cb.n))
	}
	return felixObs{cfg.ProgramClusterRoutes, cfg.ProgramIPIPClusterRoutes(), cfg.ProgramNoEncapClusterRoutes(),
		[4]bool{cb.last.IPIPEnabled, cb.last.VXLANEnabled, cb.last.VXLANEnabledV6, cb.last.NoEncapNeeded}}
}

type encapSink struct {
	last config.Encapsulation
	n    int
}

func (e *encapSink) OnEncapUpdate(enc config.Encapsulation) { e.last = enc; e.n++ }

// pool attributes that must not matter for ownership
type flagsT struct{ disabled, nat, nobgp bool }

func (f flagsT) coq() string {
	return fmt.Sprintf("(%s, %s, %s)", coqBool(f.disabled), coqBool(f.nat), coqBool(f.nobgp))
}
func (f flagsT) name() string {
	return fmt.Sprintf("disabled=%v,natOutgoing=%v,disableBGPExport=%v", f.disabled, f.nat, f.nobgp)
}

var apiIPIP = map[encap.Mode]v3.IPIPMode{encap.Never: v3.IPIPModeNever, encap.Always: v3.IPIPModeAlways, encap.CrossSubnet: v3.IPIPModeCrossSubnet}
var apiVXLAN = map[encap.Mode]v3.VXLANMode{encap.Never: v3.VXLANModeNever, encap.Always: v3.VXLANModeAlways, encap.CrossSubnet: v3.VXLANModeCrossSubnet}

type birdObs struct {
	pol      [2]bool
	programs bool
	stmt     string
	tunl0    bool
	raw      []string
}

// kind: 0 no BGPConfiguration, 1 field unset, 2 value
func birdSide(kind int, val string, m modeT, v4 bool, fl flagsT) birdObs {
	var cfg *v3.BGPConfiguration
	if kind >= 1 {
		cfg = v3.NewBGPConfiguration()
		cfg.Name = "default"
		if kind == 2 {
			v := val
			cfg.Spec.ProgramClusterRoutes = &v
		}
	}
	cidr, ver := "10.65.0.0/16", 4
	if !v4 {
		cidr, ver = "fd00:65::/48", 6
	}
	_, n, err := cnet.ParseCIDR(cidr)
	if err != nil {
		panic(err)
	}
	pool := model.IPPool{CIDR: *n, IPIPMode: m.ipip, VXLANMode: m.vxlan, IPAM: true, Disabled: fl.disabled, Masquerade: fl.nat, DisableBGPExport: fl.nobgp}
	r, err := confd.VerifC28(cfg, pool, ver)
	if err != nil {
		panic(err)
	}
	o := birdObs{pol: [2]bool{r.PolicyIPIP, r.PolicyNoEncap}, programs: r.ProgramsPool, raw: r.KernelFilter}
	switch {
	case len(r.KernelFilter) == 0:
		o.stmt = "SNoStmt"
	case len(r.KernelFilter) == 1 && strings.Contains(r.KernelFilter[0], "(net ~ "+cidr+")") && strings.Contains(r.KernelFilter[0], " reject; }") && !strings.Contains(r.KernelFilter[0], "accept;"):
		o.stmt = "SReject"
	case len(r.KernelFilter) == 1 && strings.Contains(r.KernelFilter[0], "(net ~ "+cidr+")") && strings.Contains(r.KernelFilter[0], " accept; }") && !strings.Contains(r.KernelFilter[0], "reject;"):
		o.stmt = "SAccept"
	default:
		o.stmt = "SOther"
	}
	o.tunl0 = strings.Contains(strings.Join(r.IBGPExportFilter, "\n"), "\"tunl0\"")
	return o
}

var four = []string{"Disabled", "EnabledIPIPOnly", "EnabledNoEncapOnly", "Enabled"}

func isFour(s string) bool {
	for _, f := range four {
		if f == s {
			return true
		}
	}
	return false
}

func classOf(present bool, s string) string {
	switch {
	case !present:
		return "absent"
	case isFour(s):
		return s
	case s == "":
		return "empty"
	case strings.EqualFold(s, "none"):
		return "none-keyword"
	}
	for _, f := range four {
		if strings.EqualFold(f, s) {
			return "case-variant"
		}
	}
	return "unrecognised"
}

func resolve(present bool, s, dflt string) string {
	if present && isFour(s) {
		return s
	}
	return dflt
}

var supported = map[[2]string]bool{{"EnabledIPIPOnly", "EnabledNoEncapOnly"}: true, {"Enabled", "Disabled"}: true,
	{"Disabled", "Enabled"}: true, {"EnabledNoEncapOnly", "EnabledIPIPOnly"}: true}

func main() {
	n := flag.Int("n", 0, "ignored: the enumeration is complete")
	seed := flag.Uint64("seed", 1, "seed for the random unrecognised strings")
	full := flag.Bool("full", false, "thorough tier: more unrecognised strings and case variants")
	flag.Parse()
	_ = n
	logrus.SetOutput(io.Discard)
	logrus.SetLevel(logrus.PanicLevel)

	r := &rng{s: *seed}
	rnd := func() string {
		const al = "abcdefghijklmnopqrstuvwxyzABCDEFGHIJKLMNOPQRSTUVWXYZ-_ 0123456789"
		l := 1 + int(r.next()%18)
		b := make([]byte, l)
		for i := range b {
			b[i] = al[r.next()%uint64(len(al))]
		}
		s := string(b)
		if classOf(true, s) != "unrecognised" {
			return "x" + s
		}
		return s
	}
	unrec := []string{"Bogus", " Enabled", "EnabledIPIPOnlyx", rnd()}
	variants := []string{"enabled", "EnabledNoencapOnly", "none", "NONE"}
	if *full {
		unrec = append(unrec, "EnabledVXLANOnly", "Enabled ", "FelixOnly", "true", "Disable", rnd(), rnd(), rnd(), rnd())
		variants = append(variants, "DISABLED", "enabledipiponly", "eNABLED", "None", "nOnE")
	}

	type rawT struct {
		present bool
		s       string
	}
	var fraws []rawT
	fraws = append(fraws, rawT{false, ""})
	for _, s := range four {
		fraws = append(fraws, rawT{true, s})
	}
	fraws = append(fraws, rawT{true, ""})
	for _, s := range unrec {
		fraws = append(fraws, rawT{true, s})
	}
	for _, s := range variants {
		fraws = append(fraws, rawT{true, s})
	}
	type brawT struct {
		kind int
		s    string
	}
	braws := []brawT{{0, ""}, {1, ""}}
	for _, s := range four {
		braws = append(braws, brawT{2, s})
	}
	braws = append(braws, brawT{2, ""})
	for _, s := range unrec {
		braws = append(braws, brawT{2, s})
	}
	for _, s := range variants {
		braws = append(braws, brawT{2, s})
	}

	enc := json.NewEncoder(os.Stdout)
	count := 0
	nf, nb := 0, 0
	type fkeyT struct {
		fr  rawT
		fl  flagsT
		api bool
	}
	type bkeyT struct {
		br brawT
		fl flagsT
	}
	type comboT struct {
		fr  rawT
		br  brawT
		fl  flagsT
		api bool
	}
	// stream 1: every raw value x every BGPConfiguration state, bare pool, syncer path
	// (quick tier: the full product only over absent / the four values on both sides; every other string on one side is
	// paired with three settings of the other side - the two halves are computed independently by the code anyway)
	var combos []comboT
	core := func(present bool, s string) bool { return !present || isFour(s) }
	for _, br := range braws {
		for _, fr := range fraws {
			if *full || (core(fr.present, fr.s) && core(br.kind == 2, br.s)) ||
				(core(fr.present, fr.s) && (!fr.present || fr.s == "Enabled" || fr.s == "Disabled")) ||
				(core(br.kind == 2, br.s) && (br.kind == 1 || br.s == "Enabled" || br.s == "Disabled")) {
				combos = append(combos, comboT{fr, br, flagsT{}, false})
			}
		}
	}
	// stream 2: the default pair and the four supported pairings x pool attributes that must not matter x both paths
	pairs := []comboT{{fr: rawT{false, ""}, br: brawT{1, ""}}, {fr: rawT{true, "EnabledIPIPOnly"}, br: brawT{2, "EnabledNoEncapOnly"}},
		{fr: rawT{true, "Enabled"}, br: brawT{2, "Disabled"}}, {fr: rawT{true, "Disabled"}, br: brawT{2, "Enabled"}},
		{fr: rawT{true, "EnabledNoEncapOnly"}, br: brawT{2, "EnabledIPIPOnly"}}}
	for _, pr := range pairs {
		combos = append(combos, comboT{pr.fr, pr.br, flagsT{}, true})
		for _, fl := range []flagsT{{true, false, false}, {false, true, false}, {false, false, true}, {true, true, true}} {
			for _, api := range []bool{false, true} {
				combos = append(combos, comboT{pr.fr, pr.br, fl, api})
			}
		}
	}
	for _, fam := range []bool{true, false} {
		for _, m := range modes {
			if !fam && (m.ipip != encap.Never) {
				continue // IPIP pools are IPv4 only (rejected by validation otherwise)
			}
			fcache := map[fkeyT]felixObs{}
			fname := map[fkeyT]string{}
			bcache := map[bkeyT]birdObs{}
			bnames := map[bkeyT]string{}
			for _, cb := range combos {
				fr, br := cb.fr, cb.br
				fk, bk := fkeyT{fr, cb.fl, cb.api}, bkeyT{br, cb.fl}
				if _, ok := fcache[fk]; !ok {
					var p *string
					if fr.present {
						s := fr.s
						p = &s
					}
					fo := felixSide(p, m, fam, cb.fl, cb.api)
					fcache[fk] = fo
					fcoq := "None"
					if fr.present {
						fcoq = "(Some " + coqStr(fr.s) + ")"
					}
					fname[fk] = fmt.Sprintf("f_%d", nf)
					nf++
					enc.Encode(map[string]string{"def": fmt.Sprintf("Definition %s := Build_fobs %s %s %s %s %s %s %s %s (%s, %s, %s, %s).",
						fname[fk], fcoq, m.coq, coqBool(fam), cb.fl.coq(), coqBool(cb.api), coqStr(fo.pcr), coqBool(fo.ipip), coqBool(fo.noencap),
						coqBool(fo.calc[0]), coqBool(fo.calc[1]), coqBool(fo.calc[2]), coqBool(fo.calc[3]))})
				}
				bcoq := []string{"BNoConfig", "BUnset", "(BVal " + coqStr(br.s) + ")"}[br.kind]
				if _, ok := bcache[bk]; !ok {
					bo := birdSide(br.kind, br.s, m, fam, cb.fl)
					bcache[bk] = bo
					bnames[bk] = fmt.Sprintf("b_%d", nb)
					nb++
					enc.Encode(map[string]string{"def": fmt.Sprintf("Definition %s := Build_bobs %s %s %s %s (%s, %s) %s %s %s.",
						bnames[bk], bcoq, m.coq, coqBool(fam), cb.fl.coq(), coqBool(bo.pol[0]), coqBool(bo.pol[1]), coqBool(bo.programs), bo.stmt, coqBool(bo.tunl0))})
				}
				fo, bo, bname := fcache[fk], bcache[bk], bnames[bk]
				{
					coq := fmt.Sprintf("(Build_case %s %s)", fname[fk], bname)
					fc, bc := classOf(fr.present, fr.s), classOf(br.kind == 2, br.s)
					if br.kind == 0 {
						bc = "no-bgpconfig"
					}
					fv, bv := resolve(fr.present, fr.s, "EnabledIPIPOnly"), resolve(br.kind == 2, br.s, "EnabledNoEncapOnly")
					sup := supported[[2]string{fv, bv}]
					tags := []string{"felix:" + fc, "bgp:" + bc, "mode:" + m.name, map[bool]string{true: "ipv4", false: "ipv6"}[fam],
						map[bool]string{true: "pairing:supported", false: "pairing:unsupported"}[sup], "pool:" + cb.fl.name(),
						map[bool]string{true: "felix-path:startup(handleAPIPool)", false: "felix-path:syncer(handleModelPool)"}[cb.api]}
					l := line{Coq: coq, NT: sup, Key: fmt.Sprintf("%v|%q|%d|%q|%s|%v|%s|%v", fr.present, fr.s, br.kind, br.s, m.name, fam, cb.fl.name(), cb.api), Tags: tags,
						Sample: map[string]any{"felix_raw": map[bool]any{true: fr.s, false: nil}[fr.present], "bgp": bcoq, "mode": m.name, "ipv4": fam,
							"pool_attributes": cb.fl.name(), "felix_path": map[bool]string{true: "start-up (handleAPIPool)", false: "syncer (handleModelPool)"}[cb.api],
							"felix":       map[string]any{"ProgramClusterRoutes": fo.pcr, "ProgramIPIP": fo.ipip, "ProgramNoEncap": fo.noencap, "calc(ipip,vxlan,vxlan6,noencap)": fo.calc},
							"confd":       map[string]any{"policy(ipip,noEncap)": bo.pol, "programsPool": bo.programs, "kernel_filter": bo.raw, "tunl0_in_ibgp_reject": bo.tunl0},
							"felix_class": fc, "bgp_class": bc}}
					if err := enc.Encode(l); err != nil {
						panic(err)
					}
					count++
				}
			}
		}
	}
	enc.Encode(map[string]any{"stats": map[string]any{"cases": count, "felix_raw_values": len(fraws), "bgp_states": len(braws)}})
}
