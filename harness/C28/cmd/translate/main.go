//go:build verif

// C28 translator: reads the Go source (and the design document) of the tree named by -repo and prints a JSON object
// {"gen": <text of Gen.v>, "info": {...}} on stdout.  It understands only the shapes described below and REFUSES
// (exit status 3, message on stderr) when it meets anything else, rather than guessing.
//
// What is translated (Go construct -> Coq definition in Gen.v):
//
//	api constants.go / encap/ipip.go  string constants            -> resolved inside the translated expressions
//	felixconfig.go / bgpconfig.go     +kubebuilder Enum markers   -> felix_api_enum, bgp_api_enum
//	felix/config/config_params.go     struct tag of ProgramClusterRoutes  -> felix_options, felix_default
//	                                  ProgramIPIPClusterRoutes / ProgramNoEncapClusterRoutes  -> felix_prog_ipip / felix_prog_noencap
//	felix/calc/encapsulation_resolver.go  handleModelPool's call of updatePool, updatePool's set inserts/deletes,
//	                                  IPIPEnabled / VXLANEnabled / VXLANEnabledV6 / NoEncapNeeded -> calc_*
//	felix/calc/calc_graph.go          condition guarding NewL3RouteResolver  -> l3rr_started
//	felix/daemon/daemon.go            configParams.Encapsulation.X = encapCalculator.X()  -> wire_enc_*
//	felix/dataplane/driver.go         fields of the dataplane Config literal  -> wire_dp_*
//	felix/dataplane/linux/int_dataplane.go  conditions enclosing the creation of the noEncap / VXLAN / IPIP managers -> mgr_*
//	felix/dataplane/linux/ipip_mgr.go conditions enclosing every use of the IPIP route manager -> ipip_route_gates
//	confd/pkg/backends/calico/bgp_processor.go  clusterRoutePolicyFromBGPConfig (nil guard, switch arms, default),
//	                                  programsPool, poolUsesIPIP, poolUsesVXLAN, processIPPool -> bird_*
//	design/cluster-route-programming/DESIGN.md  value table, supported pairings, defaults -> doc_*
package main

import (
	"bytes"
	"encoding/json"
	"flag"
	"fmt"
	"go/ast"
	"go/parser"
	"go/printer"
	"go/token"
	"os"
	"path/filepath"
	"reflect"
	"regexp"
	"strconv"
	"strings"
)

func refuse(format string, a ...any) {
	fmt.Fprintf(os.Stderr, "REFUSE: "+format+"\n", a...)
	os.Exit(3)
}

var (
	repo string
	fset = token.NewFileSet()
)

// ---------------------------------------------------------------------------------------------- parsing helpers

func parseFile(rel string) *ast.File {
	f, err := parser.ParseFile(fset, filepath.Join(repo, rel), nil, parser.ParseComments)
	if err != nil {
		refuse("%s: %v", rel, err)
	}
	return f
}

func text(n ast.Node) string {
	var b bytes.Buffer
	if err := printer.Fprint(&b, fset, n); err != nil {
		refuse("cannot print node: %v", err)
	}
	return strings.Join(strings.Fields(b.String()), " ")
}

func pos(n ast.Node) string {
	p := fset.Position(n.Pos())
	r, _ := filepath.Rel(repo, p.Filename)
	return fmt.Sprintf("%s:%d", r, p.Line)
}

func findFunc(f *ast.File, recv, name string) *ast.FuncDecl {
	var found *ast.FuncDecl
	for _, d := range f.Decls {
		fd, ok := d.(*ast.FuncDecl)
		if !ok || fd.Name.Name != name {
			continue
		}
		r := ""
		if fd.Recv != nil && len(fd.Recv.List) == 1 {
			t := fd.Recv.List[0].Type
			if s, ok := t.(*ast.StarExpr); ok {
				t = s.X
			}
			if id, ok := t.(*ast.Ident); ok {
				r = id.Name
			}
		}
		if r == recv {
			if found != nil {
				refuse("two declarations of %s.%s", recv, name)
			}
			found = fd
		}
	}
	if found == nil || found.Body == nil {
		refuse("%s: function %s.%s not found", fset.Position(f.Pos()).Filename, recv, name)
	}
	return found
}

// string constants of a package directory: name -> value
var constCache = map[string]map[string]string{}

func pkgConsts(dir string) map[string]string {
	if m, ok := constCache[dir]; ok {
		return m
	}
	m := map[string]string{}
	ents, err := os.ReadDir(filepath.Join(repo, dir))
	if err != nil {
		refuse("%s: %v", dir, err)
	}
	for _, e := range ents {
		n := e.Name()
		if !strings.HasSuffix(n, ".go") || strings.HasSuffix(n, "_test.go") || strings.HasPrefix(n, "zz_") {
			continue
		}
		f := parseFile(filepath.Join(dir, n))
		for _, d := range f.Decls {
			gd, ok := d.(*ast.GenDecl)
			if !ok || gd.Tok != token.CONST {
				continue
			}
			for _, s := range gd.Specs {
				vs := s.(*ast.ValueSpec)
				for i, id := range vs.Names {
					if i < len(vs.Values) {
						if bl, ok := vs.Values[i].(*ast.BasicLit); ok && bl.Kind == token.STRING {
							v, err := strconv.Unquote(bl.Value)
							if err == nil {
								m[id.Name] = v
							}
						}
					}
				}
			}
		}
	}
	constCache[dir] = m
	return m
}

// import path -> directory in the tree, for the packages whose constants we resolve
var importDirs = map[string]string{
	"github.com/projectcalico/api/pkg/apis/projectcalico/v3":         "api/pkg/apis/projectcalico/v3",
	"github.com/projectcalico/calico/libcalico-go/lib/backend/encap": "libcalico-go/lib/backend/encap",
}

func fileImports(f *ast.File) map[string]string { // local name -> dir
	m := map[string]string{}
	for _, im := range f.Imports {
		p, _ := strconv.Unquote(im.Path.Value)
		dir, ok := importDirs[p]
		if !ok {
			continue
		}
		name := filepath.Base(p)
		if im.Name != nil {
			name = im.Name.Name
		}
		m[name] = dir
	}
	return m
}

// ---------------------------------------------------------------------------------------------- expressions

type kind int

const (
	kBool kind = iota
	kString
	kPolicy
	kAction
)

type val struct {
	coq string
	k   kind
}

type env struct {
	file   *ast.File
	atoms  map[string]val // canonical Go text -> Coq term
	locals map[string]*val
	used   map[string]bool
	what   string
}

func newEnv(f *ast.File, what string, atoms map[string]val) *env {
	return &env{file: f, atoms: atoms, locals: map[string]*val{}, used: map[string]bool{}, what: what}
}

func coqString(s string) string { return "\"" + strings.ReplaceAll(s, "\"", "\"\"") + "\"" }

func (e *env) expr(x ast.Expr) val {
	t := text(x)
	if v, ok := e.atoms[t]; ok {
		e.used[t] = true
		return v
	}
	switch n := x.(type) {
	case *ast.BadExpr:
		refuse("%s: a target is reached only past the statement at %s, which may leave (return / continue / break) under a condition this translator cannot express", e.what, pos(n))
	case *ast.ParenExpr:
		return e.expr(n.X)
	case *ast.Ident:
		switch n.Name {
		case "true":
			return val{"true", kBool}
		case "false":
			return val{"false", kBool}
		}
		if v, ok := e.locals[n.Name]; ok {
			if v == nil {
				refuse("%s (%s): local %q has a value this translator does not understand, but it is used", e.what, pos(x), n.Name)
			}
			return *v
		}
	case *ast.BasicLit:
		if n.Kind == token.STRING {
			s, err := strconv.Unquote(n.Value)
			if err == nil {
				return val{coqString(s), kString}
			}
		}
	case *ast.SelectorExpr:
		if id, ok := n.X.(*ast.Ident); ok {
			if dir, ok := fileImports(e.file)[id.Name]; ok {
				if v, ok := pkgConsts(dir)[n.Sel.Name]; ok {
					return val{coqString(v), kString}
				}
				refuse("%s (%s): %s is not a string constant of %s", e.what, pos(x), t, dir)
			}
		}
	case *ast.UnaryExpr:
		if n.Op == token.NOT {
			a := e.expr(n.X)
			if a.k != kBool {
				refuse("%s (%s): ! applied to a non-boolean", e.what, pos(x))
			}
			return val{"(negb " + a.coq + ")", kBool}
		}
	case *ast.BinaryExpr:
		switch n.Op {
		case token.LAND, token.LOR:
			a := e.expr(n.X)
			if a.k == kBool && ((n.Op == token.LAND && a.coq == "false") || (n.Op == token.LOR && a.coq == "true")) {
				return a // Go does not evaluate the right operand either
			}
			b := e.expr(n.Y)
			if a.k != kBool || b.k != kBool {
				refuse("%s (%s): %s on non-booleans", e.what, pos(x), n.Op)
			}
			op := "andb"
			if n.Op == token.LOR {
				op = "orb"
			}
			return val{"(" + op + " " + a.coq + " " + b.coq + ")", kBool}
		case token.EQL, token.NEQ:
			a, b := e.expr(n.X), e.expr(n.Y)
			if a.k != b.k || (a.k != kBool && a.k != kString) {
				refuse("%s (%s): comparison of unlike or unsupported operands: %s", e.what, pos(x), t)
			}
			eq := "String.eqb"
			if a.k == kBool {
				eq = "Bool.eqb"
			}
			r := "(" + eq + " " + a.coq + " " + b.coq + ")"
			if n.Op == token.NEQ {
				r = "(negb " + r + ")"
			}
			return val{r, kBool}
		}
	}
	refuse("%s (%s): unrecognised expression `%s`", e.what, pos(x), t)
	return val{}
}

func (e *env) boolExpr(x ast.Expr) string {
	v := e.expr(x)
	if v.k != kBool {
		refuse("%s (%s): expected a boolean expression, got `%s`", e.what, pos(x), text(x))
	}
	return v.coq
}

// ---------------------------------------------------------------------------------------------- function bodies
//
// chain translates a statement list made of
//     if <cond> { ... return e } [else { ... }]      (no init statement)
//     switch <string expr> { case C1, C2: ... return e ; default: ... return e }   (no fallthrough / break)
//     x := <expr>                                     (bound if the expression is understood, otherwise poisoned)
//     var x T ;  x = <anything> ;  if c { x = ... }   (x is poisoned: any later use is refused)
//     calls on log / logCtx / logrus                  (ignored)
//     return e
// into a Coq term.  retval translates the returned expression.

type retFn func(e *env, x ast.Expr) val

func isLogCall(s ast.Stmt) bool {
	es, ok := s.(*ast.ExprStmt)
	if !ok {
		return false
	}
	c, ok := es.X.(*ast.CallExpr)
	if !ok {
		return false
	}
	var root ast.Expr = c.Fun
	for {
		switch n := root.(type) {
		case *ast.SelectorExpr:
			root = n.X
			continue
		case *ast.CallExpr:
			root = n.Fun
			continue
		}
		break
	}
	id, ok := root.(*ast.Ident)
	return ok && (id.Name == "log" || id.Name == "logCtx" || id.Name == "logrus" || id.Name == "logCxt")
}

func hasReturn(n ast.Node) bool {
	found := false
	ast.Inspect(n, func(m ast.Node) bool {
		switch m.(type) {
		case *ast.ReturnStmt:
			found = true
		case *ast.FuncLit:
			return false
		}
		return !found
	})
	return found
}

// onlyPoisons: a statement without returns that only assigns plain local identifiers (which become poisoned)
func (e *env) onlyPoisons(s ast.Stmt) bool {
	ok := true
	ast.Inspect(s, func(m ast.Node) bool {
		switch n := m.(type) {
		case *ast.AssignStmt:
			for _, l := range n.Lhs {
				id, isId := l.(*ast.Ident)
				if !isId {
					ok = false
				} else {
					e.locals[id.Name] = nil
				}
			}
			return false
		case *ast.ExprStmt:
			if !isLogCall(n) {
				ok = false
			}
			return false
		case *ast.IfStmt, *ast.BlockStmt:
			return true
		case *ast.DeclStmt:
			return false
		case ast.Stmt:
			ok = false
			return false
		}
		return true
	})
	return ok
}

func (e *env) chain(stmts []ast.Stmt, ret retFn, want kind) string {
	if len(stmts) == 0 {
		refuse("%s: control reaches the end of the function without a return the translator understands", e.what)
	}
	s, rest := stmts[0], stmts[1:]
	switch n := s.(type) {
	case *ast.ReturnStmt:
		if len(n.Results) != 1 {
			refuse("%s (%s): return with %d results", e.what, pos(s), len(n.Results))
		}
		v := ret(e, n.Results[0])
		if v.k != want {
			refuse("%s (%s): returned value `%s` is not of the expected kind", e.what, pos(s), text(n.Results[0]))
		}
		return v.coq
	case *ast.IfStmt:
		if !hasReturn(n) {
			if e.onlyPoisons(n) {
				return e.chain(rest, ret, want)
			}
			refuse("%s (%s): `if` without return that does more than assign locals / log", e.what, pos(s))
		}
		if n.Init != nil {
			refuse("%s (%s): `if` with an init statement", e.what, pos(s))
		}
		c := e.boolExpr(n.Cond)
		thenS := append(append([]ast.Stmt{}, n.Body.List...), rest...)
		var elseS []ast.Stmt
		switch el := n.Else.(type) {
		case nil:
			elseS = rest
		case *ast.BlockStmt:
			elseS = append(append([]ast.Stmt{}, el.List...), rest...)
		case *ast.IfStmt:
			elseS = append([]ast.Stmt{el}, rest...)
		}
		saved := copyLocals(e.locals)
		a := e.chain(thenS, ret, want)
		e.locals = copyLocals(saved)
		b := e.chain(elseS, ret, want)
		e.locals = saved
		return "(if " + c + " then " + a + " else " + b + ")"
	case *ast.SwitchStmt:
		if n.Init != nil || n.Tag == nil {
			refuse("%s (%s): unsupported switch form", e.what, pos(s))
		}
		tag := e.expr(n.Tag)
		if tag.k != kString {
			refuse("%s (%s): switch on a non-string", e.what, pos(s))
		}
		type arm struct {
			cond string
			body []ast.Stmt
		}
		var arms []arm
		var def []ast.Stmt
		hasDef := false
		for _, c := range n.Body.List {
			cc := c.(*ast.CaseClause)
			for _, st := range cc.Body {
				if b, ok := st.(*ast.BranchStmt); ok {
					refuse("%s (%s): %s inside switch", e.what, pos(b), b.Tok)
				}
			}
			if cc.List == nil {
				hasDef = true
				def = cc.Body
				continue
			}
			var conds []string
			for _, x := range cc.List {
				v := e.expr(x)
				if v.k != kString {
					refuse("%s (%s): non-string case", e.what, pos(x))
				}
				conds = append(conds, "(String.eqb "+tag.coq+" "+v.coq+")")
			}
			cond := conds[0]
			for _, c2 := range conds[1:] {
				cond = "(orb " + cond + " " + c2 + ")"
			}
			arms = append(arms, arm{cond, cc.Body})
		}
		_ = hasDef
		saved := copyLocals(e.locals)
		out := e.chain(append(append([]ast.Stmt{}, def...), rest...), ret, want)
		for i := len(arms) - 1; i >= 0; i-- {
			e.locals = copyLocals(saved)
			b := e.chain(append(append([]ast.Stmt{}, arms[i].body...), rest...), ret, want)
			out = "(if " + arms[i].cond + " then " + b + " else " + out + ")"
		}
		e.locals = saved
		return out
	case *ast.AssignStmt:
		if len(n.Lhs) == 1 && len(n.Rhs) == 1 {
			if id, ok := n.Lhs[0].(*ast.Ident); ok {
				if n.Tok == token.DEFINE {
					if v, ok := tryRet(e, ret, n.Rhs[0]); ok {
						e.locals[id.Name] = &v
					} else {
						e.locals[id.Name] = nil
					}
				} else {
					e.locals[id.Name] = nil
				}
				return e.chain(rest, ret, want)
			}
		}
		refuse("%s (%s): unsupported assignment `%s`", e.what, pos(s), text(s))
	case *ast.DeclStmt:
		gd := n.Decl.(*ast.GenDecl)
		if gd.Tok == token.VAR {
			for _, sp := range gd.Specs {
				for _, id := range sp.(*ast.ValueSpec).Names {
					e.locals[id.Name] = nil
				}
			}
			return e.chain(rest, ret, want)
		}
	case *ast.ExprStmt:
		if isLogCall(n) {
			return e.chain(rest, ret, want)
		}
	}
	refuse("%s (%s): unrecognised statement `%s`", e.what, pos(s), text(s))
	return ""
}

func copyLocals(m map[string]*val) map[string]*val {
	r := map[string]*val{}
	for k, v := range m {
		r[k] = v
	}
	return r
}

// tryRet: `x := clusterRoutePolicy{...}` binds x; any other right-hand side poisons x (a later use is refused).
func tryRet(e *env, ret retFn, x ast.Expr) (v val, ok bool) {
	cl, isLit := x.(*ast.CompositeLit)
	if !isLit {
		return val{}, false
	}
	if id, isId := cl.Type.(*ast.Ident); !isId || id.Name != "clusterRoutePolicy" {
		return val{}, false
	}
	return retPolicy(e, x), true
}

func retBool(e *env, x ast.Expr) val { return e.expr(x) }

// clusterRoutePolicy{ipip: b1, noEncap: b2}  ->  (b1, b2)
func retPolicy(e *env, x ast.Expr) val {
	if cl, ok := x.(*ast.CompositeLit); ok {
		id, isId := cl.Type.(*ast.Ident)
		if !isId || id.Name != "clusterRoutePolicy" {
			refuse("%s (%s): unexpected composite literal %s", e.what, pos(x), text(x))
		}
		f := map[string]string{"ipip": "false", "noEncap": "false"} // Go zero values for omitted fields
		for _, el := range cl.Elts {
			kv, ok := el.(*ast.KeyValueExpr)
			if !ok {
				refuse("%s (%s): positional clusterRoutePolicy literal", e.what, pos(x))
			}
			k := kv.Key.(*ast.Ident).Name
			if _, known := f[k]; !known {
				refuse("%s (%s): clusterRoutePolicy has a field %q this translator does not know", e.what, pos(x), k)
			}
			f[k] = e.boolExpr(kv.Value)
		}
		return val{"(" + f["ipip"] + ", " + f["noEncap"] + ")", kPolicy}
	}
	return e.expr(x)
}

// emitFilterStatementForIPPools(cidr, <extra>, "accept"|"reject", filterAction, <comment>) -> Accept | Reject
func retAction(e *env, x ast.Expr) val {
	c, ok := x.(*ast.CallExpr)
	if !ok || text(c.Fun) != "emitFilterStatementForIPPools" || len(c.Args) != 5 {
		refuse("%s (%s): expected a call of emitFilterStatementForIPPools, got `%s`", e.what, pos(x), text(x))
	}
	if text(c.Args[0]) != "cidr" || text(c.Args[3]) != "filterAction" {
		refuse("%s (%s): emitFilterStatementForIPPools is no longer called with (cidr, _, _, filterAction, _)", e.what, pos(x))
	}
	bl, ok := c.Args[2].(*ast.BasicLit)
	if !ok {
		refuse("%s (%s): action argument is not a literal", e.what, pos(x))
	}
	switch bl.Value {
	case `"accept"`:
		return val{"Accept", kAction}
	case `"reject"`:
		return val{"Reject", kAction}
	}
	refuse("%s (%s): unknown action %s", e.what, pos(x), bl.Value)
	return val{}
}

// ---------------------------------------------------------------------------------------------- enclosing conditions

type hit struct {
	label string
	conds []ast.Expr // conjunction; a negated entry is wrapped in *ast.UnaryExpr{NOT}
	at    string
}

// hasExit: control can leave the statement list that contains n other than by falling out of n's end:
// return, goto, a labelled branch, `continue` not inside a loop nested in n, `break` not inside a loop/switch/select nested in n.
// (Crashes - panic, log.Fatal - are not ownership decisions and do not count.)
func hasExit(n ast.Node) bool {
	found := false
	var stack []ast.Node
	ast.Inspect(n, func(m ast.Node) bool {
		if m == nil {
			stack = stack[:len(stack)-1]
			return false
		}
		if _, ok := m.(*ast.FuncLit); ok {
			return false
		}
		inLoop, inSwitch := false, false
		for _, x := range stack {
			switch x.(type) {
			case *ast.ForStmt, *ast.RangeStmt:
				inLoop = true
			case *ast.SwitchStmt, *ast.TypeSwitchStmt, *ast.SelectStmt:
				inSwitch = true
			}
		}
		stack = append(stack, m)
		switch st := m.(type) {
		case *ast.ReturnStmt:
			found = true
		case *ast.BranchStmt:
			switch {
			case st.Label != nil || st.Tok == token.GOTO:
				found = true
			case st.Tok == token.CONTINUE && !inLoop:
				found = true
			case st.Tok == token.BREAK && !inLoop && !inSwitch:
				found = true
			}
		}
		return true
	})
	return found
}

// terminates: the statement list always ends by leaving the enclosing list (return / continue / break / goto)
func terminates(l []ast.Stmt) bool {
	if len(l) == 0 {
		return false
	}
	switch n := l[len(l)-1].(type) {
	case *ast.ReturnStmt:
		return true
	case *ast.BranchStmt:
		return n.Tok != token.FALLTHROUGH
	case *ast.BlockStmt:
		return terminates(n.List)
	case *ast.IfStmt:
		if n.Else == nil || !terminates(n.Body.List) {
			return false
		}
		return terminates([]ast.Stmt{n.Else})
	}
	return false
}

// a condition the translator cannot express: refused if it ever guards a target
func poison(n ast.Node) ast.Expr { return &ast.BadExpr{From: n.Pos(), To: n.End()} }

// walkConds visits every simple statement of a body together with the conditions under which it is reached: the
// conditions of the enclosing `if`s AND the negated conditions of earlier `if c { ...; return/continue/break }`
// statements of the same (or an enclosing) statement list; an earlier `switch x { case A: return ...; case B: }` contributes
// "x is one of the non-leaving cases".  An earlier statement that may leave in a way that cannot be expressed poisons what
// follows (refused when a target is reached under it).
func walkConds(body *ast.BlockStmt, what string, match func(n ast.Node) []string) []hit {
	var hits []hit
	var walk func(stmts []ast.Stmt, conds []ast.Expr)
	cp := func(conds []ast.Expr, more ...ast.Expr) []ast.Expr {
		return append(append([]ast.Expr{}, conds...), more...)
	}
	contains := func(n ast.Node) bool {
		inner := false
		ast.Inspect(n, func(m ast.Node) bool {
			if m != nil && len(match(m)) > 0 {
				inner = true
			}
			return !inner
		})
		return inner
	}
	simple := func(n ast.Node, conds []ast.Expr) {
		if n == nil || reflect.ValueOf(n).IsNil() {
			return
		}
		seen := map[string]bool{}
		ast.Inspect(n, func(m ast.Node) bool {
			if m == nil {
				return false
			}
			if fl, ok := m.(*ast.FuncLit); ok {
				walk(fl.Body.List, conds)
				return false
			}
			for _, l := range match(m) {
				if !seen[l] {
					seen[l] = true
					hits = append(hits, hit{l, append([]ast.Expr{}, conds...), pos(m)})
				}
			}
			return true
		})
	}
	walk = func(stmts []ast.Stmt, conds []ast.Expr) {
		for _, s := range stmts {
			switch n := s.(type) {
			case *ast.IfStmt:
				simple(n.Init, conds)
				simple(n.Cond, conds)
				walk(n.Body.List, cp(conds, n.Cond))
				neg := &ast.UnaryExpr{Op: token.NOT, X: &ast.ParenExpr{X: n.Cond}}
				elseT := false
				switch el := n.Else.(type) {
				case *ast.BlockStmt:
					walk(el.List, cp(conds, neg))
					elseT = terminates(el.List)
				case *ast.IfStmt:
					walk([]ast.Stmt{el}, cp(conds, neg))
					elseT = terminates([]ast.Stmt{el})
				}
				bodyT := terminates(n.Body.List)
				switch {
				case bodyT && elseT:
					return // nothing after this statement is reachable
				case bodyT && (n.Else == nil || !hasExit(n.Else)):
					conds = cp(conds, neg)
				case elseT && !hasExit(n.Body):
					conds = cp(conds, n.Cond)
				case hasExit(n):
					// may leave, but only when the condition holds (no else) - inexpressible beyond that
					if n.Else == nil {
						conds = cp(conds, &ast.UnaryExpr{Op: token.NOT, X: &ast.ParenExpr{X: &ast.BinaryExpr{X: n.Cond, Op: token.LAND, Y: poison(n)}}})
					} else {
						conds = cp(conds, poison(n))
					}
				}
			case *ast.BlockStmt:
				walk(n.List, conds)
				if hasExit(n) {
					conds = cp(conds, poison(n))
				}
			case *ast.ForStmt:
				simple(n.Init, conds)
				walk(n.Body.List, conds)
				if hasExit(n) {
					conds = cp(conds, poison(n))
				}
			case *ast.RangeStmt:
				walk(n.Body.List, conds)
				if hasExit(n) {
					conds = cp(conds, poison(n))
				}
			case *ast.TypeSwitchStmt: // message dispatch: the clauses are not configuration conditions
				for _, c := range n.Body.List {
					walk(c.(*ast.CaseClause).Body, conds)
				}
				if hasExit(n) {
					conds = cp(conds, poison(n))
				}
			case *ast.SwitchStmt:
				if contains(n) {
					refuse("%s (%s): a target statement sits inside a switch the translator does not interpret", what, pos(s))
				}
				if !hasExit(n) {
					break
				}
				// switch <tag> { case A, B: (stays) ; case C: return ... ; default: return ... }
				if n.Init != nil || n.Tag == nil {
					conds = cp(conds, poison(n))
					break
				}
				var stay, leave []ast.Expr
				defaultLeaves, hasDefault, ok := false, false, true
				for _, c := range n.Body.List {
					cc := c.(*ast.CaseClause)
					t := terminates(cc.Body)
					if !t && hasExit(&ast.BlockStmt{List: cc.Body}) {
						ok = false
					}
					if cc.List == nil {
						hasDefault, defaultLeaves = true, t
						continue
					}
					for _, x := range cc.List {
						eq := &ast.BinaryExpr{X: n.Tag, Op: token.EQL, Y: x}
						if t {
							leave = append(leave, eq)
						} else {
							stay = append(stay, eq)
						}
					}
				}
				or := func(l []ast.Expr) ast.Expr {
					var r ast.Expr = ast.NewIdent("false")
					for i, x := range l {
						if i == 0 {
							r = x
						} else {
							r = &ast.BinaryExpr{X: r, Op: token.LOR, Y: x}
						}
					}
					return r
				}
				switch {
				case !ok:
					conds = cp(conds, poison(n))
				case hasDefault && defaultLeaves:
					conds = cp(conds, &ast.ParenExpr{X: or(stay)})
				default:
					conds = cp(conds, &ast.UnaryExpr{Op: token.NOT, X: &ast.ParenExpr{X: or(leave)}})
				}
			case *ast.SelectStmt:
				if contains(n) {
					refuse("%s (%s): a target statement sits inside a select the translator does not interpret", what, pos(s))
				}
				if hasExit(n) {
					conds = cp(conds, poison(n))
				}
			case *ast.LabeledStmt:
				walk([]ast.Stmt{n.Stmt}, conds)
				if hasExit(n) {
					conds = cp(conds, poison(n))
				}
			default:
				simple(s, conds)
			}
		}
	}
	walk(body.List, nil)
	return hits
}

func (e *env) conj(conds []ast.Expr) string {
	out := "true"
	for i, c := range conds {
		if bad, isBad := c.(*ast.BadExpr); isBad {
			refuse("%s: a target is reached only past the statement at %s, which may leave (return / continue / break) under a condition this translator cannot express", e.what, pos(bad))
		}
		var b string
		if u, ok := c.(*ast.UnaryExpr); ok && u.Op == token.NOT {
			if p, ok := u.X.(*ast.ParenExpr); ok {
				b = "(negb " + e.boolExpr(p.X) + ")"
			} else {
				b = e.boolExpr(c)
			}
		} else {
			b = e.boolExpr(c)
		}
		if i == 0 {
			out = b
		} else {
			out = "(andb " + out + " " + b + ")"
		}
	}
	return out
}

func oneHit(hits []hit, label, what string) hit {
	var r []hit
	for _, h := range hits {
		if h.label == label {
			r = append(r, h)
		}
	}
	if len(r) != 1 {
		refuse("%s: expected exactly one occurrence of %s, found %d", what, label, len(r))
	}
	return r[0]
}

func assignsTo(targets ...string) func(n ast.Node) []string {
	return func(n ast.Node) []string {
		as, ok := n.(*ast.AssignStmt)
		if !ok {
			return nil
		}
		var r []string
		for _, l := range as.Lhs {
			t := text(l)
			for _, x := range targets {
				if t == x {
					r = append(r, x)
				}
			}
		}
		return r
	}
}

func callsOf(targets ...string) func(n ast.Node) []string {
	return func(n ast.Node) []string {
		c, ok := n.(*ast.CallExpr)
		if !ok {
			return nil
		}
		t := text(c.Fun)
		for _, x := range targets {
			if t == x {
				return []string{x}
			}
		}
		return nil
	}
}

func bAtom(s string) val { return val{s, kBool} }
func sAtom(s string) val { return val{s, kString} }

// ---------------------------------------------------------------------------------------------- main

type out struct {
	defs []string
	info map[string]any
}

func (o *out) def(comment, name, params, typ, body string) {
	o.defs = append(o.defs, fmt.Sprintf("(* %s *)\nDefinition %s %s : %s :=\n  %s.\n", comment, name, params, typ, body))
}

func coqStrList(l []string) string {
	var q []string
	for _, s := range l {
		q = append(q, coqString(s))
	}
	return "[" + strings.Join(q, "; ") + "]"
}

func main() {
	flag.StringVar(&repo, "repo", "", "tree to translate")
	flag.Parse()
	if repo == "" {
		refuse("no -repo")
	}
	o := &out{info: map[string]any{}}

	enc := pkgConsts("libcalico-go/lib/backend/encap")
	for _, n := range []string{"Never", "Always", "CrossSubnet"} {
		v, ok := enc[n]
		if !ok {
			refuse("libcalico-go/lib/backend/encap: string constant %s not found", n)
		}
		o.def("libcalico-go/lib/backend/encap: const "+n, "encap_"+strings.ToLower(n), "", "string", coqString(v))
	}
	felixSide(o)
	birdSide(o)
	docSide(o)
	o.defs = append(o.defs, gRecord)

	var b strings.Builder
	b.WriteString("(* GENERATED on every run by /verif/harness/C28/cmd/translate from the source of $VERIF_REPO.  Do not edit. *)\n")
	b.WriteString("From Coq Require Import List String Bool.\nFrom Verif.C28 Require Import Model.\nImport ListNotations.\nOpen Scope string_scope.\n\n")
	for _, d := range o.defs {
		b.WriteString(d)
		b.WriteString("\n")
	}
	js, _ := json.Marshal(map[string]any{"gen": b.String(), "info": o.info})
	os.Stdout.Write(js)
	os.Stdout.WriteString("\n")
}

var enumRe = regexp.MustCompile(`\+kubebuilder:validation:Enum=([A-Za-z;]+)`)

func apiEnum(rel, structName string) []string {
	f := parseFile(rel)
	var res []string
	ast.Inspect(f, func(n ast.Node) bool {
		ts, ok := n.(*ast.TypeSpec)
		if !ok || ts.Name.Name != structName {
			return true
		}
		st, ok := ts.Type.(*ast.StructType)
		if !ok {
			return true
		}
		for _, fl := range st.Fields.List {
			for _, nm := range fl.Names {
				if nm.Name == "ProgramClusterRoutes" {
					if text(fl.Type) != "*string" {
						refuse("%s: %s.ProgramClusterRoutes is not a *string", rel, structName)
					}
					if fl.Doc != nil {
						if m := enumRe.FindStringSubmatch(fl.Doc.Text() + commentRaw(fl.Doc)); m != nil {
							res = strings.Split(m[1], ";")
						}
					}
				}
			}
		}
		return false
	})
	if res == nil {
		refuse("%s: %s.ProgramClusterRoutes with a +kubebuilder:validation:Enum marker not found", rel, structName)
	}
	return res
}

func commentRaw(g *ast.CommentGroup) string {
	var s []string
	for _, c := range g.List {
		s = append(s, c.Text)
	}
	return strings.Join(s, "\n")
}

func felixSide(o *out) {
	// ---- API enums
	fe := apiEnum("api/pkg/apis/projectcalico/v3/felixconfig.go", "FelixConfigurationSpec")
	be := apiEnum("api/pkg/apis/projectcalico/v3/bgpconfig.go", "BGPConfigurationSpec")
	o.def("api/.../felixconfig.go: +kubebuilder:validation:Enum of FelixConfigurationSpec.ProgramClusterRoutes", "felix_api_enum", "", "list string", coqStrList(fe))
	o.def("api/.../bgpconfig.go: +kubebuilder:validation:Enum of BGPConfigurationSpec.ProgramClusterRoutes", "bgp_api_enum", "", "list string", coqStrList(be))

	// ---- config parameter
	const cp = "felix/config/config_params.go"
	f := parseFile(cp)
	var tag string
	ast.Inspect(f, func(n ast.Node) bool {
		ts, ok := n.(*ast.TypeSpec)
		if !ok || ts.Name.Name != "Config" {
			return true
		}
		st, ok := ts.Type.(*ast.StructType)
		if !ok {
			return true
		}
		for _, fl := range st.Fields.List {
			for _, nm := range fl.Names {
				if nm.Name == "ProgramClusterRoutes" {
					if text(fl.Type) != "string" || fl.Tag == nil {
						refuse("%s: Config.ProgramClusterRoutes is not a tagged string field", cp)
					}
					t, _ := strconv.Unquote(fl.Tag.Value)
					tag = reflect.StructTag(t).Get("config")
				}
			}
		}
		return false
	})
	m := regexp.MustCompile(`^oneof\(([A-Za-z,]+)\);([A-Za-z]*)(;.*)?$`).FindStringSubmatch(tag)
	if m == nil {
		refuse("%s: Config.ProgramClusterRoutes tag %q is not `oneof(a,b,...);default`", cp, tag)
	}
	if m[3] != "" && m[3] != ";" {
		refuse("%s: Config.ProgramClusterRoutes carries flags %q (die-on-fail/non-zero/local change what an unrecognised value does); not understood", cp, m[3])
	}
	opts := strings.Split(m[1], ",")
	o.def(cp+": `config:\""+tag+"\"`", "felix_options", "", "list string", coqStrList(opts))
	o.def(cp+": default of ProgramClusterRoutes", "felix_default", "", "string", coqString(m[2]))
	o.info["felix_tag"] = tag

	for _, a := range [][2]string{{"ProgramIPIPClusterRoutes", "felix_prog_ipip"}, {"ProgramNoEncapClusterRoutes", "felix_prog_noencap"}} {
		fd := findFunc(f, "Config", a[0])
		e := newEnv(f, cp+":"+a[0], map[string]val{"config.ProgramClusterRoutes": sAtom("pcr")})
		body := e.chain(fd.Body.List, retBool, kBool)
		o.def(cp+": func (config *Config) "+a[0]+"()", a[1], "(pcr : string)", "bool", body)
	}

	// ---- encapsulation calculator
	const er = "felix/calc/encapsulation_resolver.go"
	f = parseFile(er)
	// handleModelPool (calc-graph / syncer path) and handleAPIPool (start-up path): under which conditions on the update and
	// on the pool's attributes c.updatePool(cidr, <ipip>, <vxlan>) is reached, and with which arguments.  Any pool attribute
	// other than the ones named in the atom tables below is refused.
	poolPath := func(fn, prefix string, atoms map[string]val, params string) {
		fd := findFunc(f, "EncapsulationCalculator", fn)
		hits := walkConds(fd.Body, er+":"+fn, callsOf("c.updatePool"))
		h := oneHit(hits, "c.updatePool", er+":"+fn)
		var call *ast.CallExpr
		ast.Inspect(fd.Body, func(n ast.Node) bool {
			if c, ok := n.(*ast.CallExpr); ok && text(c.Fun) == "c.updatePool" {
				call = c
			}
			return true
		})
		if len(call.Args) != 3 {
			refuse("%s: updatePool no longer takes (cidr, ipipEnabled, vxlanEnabled)", er)
		}
		e := newEnv(f, er+":"+fn, atoms)
		arg := func(x ast.Expr) string { // a local defined once by `x := e` stands for e
			if id, ok := x.(*ast.Ident); ok && id.Obj != nil {
				if d, ok := id.Obj.Decl.(*ast.AssignStmt); ok && d.Tok == token.DEFINE && len(d.Lhs) == 1 && len(d.Rhs) == 1 {
					nAssign := 0
					ast.Inspect(fd.Body, func(n ast.Node) bool {
						if as, ok := n.(*ast.AssignStmt); ok {
							for _, l := range as.Lhs {
								if li, ok := l.(*ast.Ident); ok && li.Obj == id.Obj {
									nAssign++
								}
							}
						}
						return true
					})
					if nAssign != 1 {
						refuse("%s:%s: %s is assigned more than once", er, fn, id.Name)
					}
					return e.boolExpr(d.Rhs[0])
				}
			}
			return e.boolExpr(x)
		}
		o.def(er+": "+fn+" reaches updatePool when ...", prefix+"_update_reached", params, "bool", e.conj(h.conds))
		o.def(er+": "+fn+": 2nd argument of updatePool = "+text(call.Args[1]), prefix+"_ipip_enabled", "(ipip_mode vxlan_mode : string)", "bool", arg(call.Args[1]))
		o.def(er+": "+fn+": 3rd argument of updatePool = "+text(call.Args[2]), prefix+"_vxlan_enabled", "(ipip_mode vxlan_mode : string)", "bool", arg(call.Args[2]))
	}
	// `ok` of the type assertions is true: handlePool dispatches on exactly these dynamic types
	poolPath("handleModelPool", "calc_pool", map[string]val{
		"p.Value == nil": bAtom("is_delete"), "p.Value != nil": bAtom("(negb is_delete)"), "ok": bAtom("true"),
		"pool.IPIPMode": sAtom("ipip_mode"), "pool.VXLANMode": sAtom("vxlan_mode"),
		"pool.Disabled": bAtom("disabled"), "pool.Masquerade": bAtom("nat_outgoing"), "pool.DisableBGPExport": bAtom("disable_bgp_export"),
	}, "(is_delete disabled nat_outgoing disable_bgp_export : bool) (ipip_mode vxlan_mode : string)")
	poolPath("handleAPIPool", "calc_api_pool", map[string]val{
		"p.Value == nil": bAtom("is_delete"), "p.Value != nil": bAtom("(negb is_delete)"), "ok": bAtom("true"),
		"pool.Spec.IPIPMode": sAtom("ipip_mode"), "pool.Spec.VXLANMode": sAtom("vxlan_mode"),
		"pool.Spec.Disabled": bAtom("disabled"), "pool.Spec.NATOutgoing": bAtom("nat_outgoing"), "pool.Spec.DisableBGPExport": bAtom("disable_bgp_export"),
	}, "(is_delete disabled nat_outgoing disable_bgp_export : bool) (ipip_mode vxlan_mode : string)")
	{
		api := pkgConsts("api/pkg/apis/projectcalico/v3")
		for _, n := range []string{"IPIPModeNever", "IPIPModeAlways", "IPIPModeCrossSubnet", "VXLANModeNever", "VXLANModeAlways", "VXLANModeCrossSubnet"} {
			v, ok := api[n]
			if !ok {
				refuse("api/pkg/apis/projectcalico/v3: string constant %s not found", n)
			}
			o.def("api/pkg/apis/projectcalico/v3: const "+n, "api_"+n, "", "string", coqString(v))
		}
	}
	{ // updatePool: which sets the pool is put into / removed from
		fd := findFunc(f, "EncapsulationCalculator", "updatePool")
		var pn []string
		for _, p := range fd.Type.Params.List {
			for _, n := range p.Names {
				pn = append(pn, n.Name+" "+text(p.Type))
			}
		}
		if strings.Join(pn, ",") != "cidr string,ipipEnabled bool,vxlanEnabled bool" {
			refuse("%s: updatePool signature changed: %v", er, pn)
		}
		sets := []string{"ipipPools", "vxlanPools", "vxlanPoolsv6", "noEncapPools"}
		match := func(n ast.Node) []string {
			switch s := n.(type) {
			case *ast.AssignStmt:
				var r []string
				for _, l := range s.Lhs {
					if ix, ok := l.(*ast.IndexExpr); ok {
						for _, st := range sets {
							if text(ix.X) == "c."+st {
								if text(ix.Index) != "cidr" {
									refuse("%s: updatePool indexes %s with %s", er, st, text(ix.Index))
								}
								r = append(r, "ins:"+st)
							}
						}
						if len(r) == 0 {
							refuse("%s: updatePool writes a map this translator does not know: %s", er, text(l))
						}
					}
				}
				return r
			case *ast.CallExpr:
				if text(s.Fun) == "delete" && len(s.Args) == 2 {
					for _, st := range sets {
						if text(s.Args[0]) == "c."+st {
							if text(s.Args[1]) != "cidr" {
								refuse("%s: updatePool deletes %s from %s", er, text(s.Args[1]), st)
							}
							return []string{"del:" + st}
						}
					}
					refuse("%s: updatePool deletes from a map this translator does not know: %s", er, text(s))
				}
			}
			return nil
		}
		hits := walkConds(fd.Body, er+":updatePool", match)
		e := newEnv(f, er+":updatePool", map[string]val{
			"ipipEnabled": bAtom("ipipEnabled"), "vxlanEnabled": bAtom("vxlanEnabled"),
			"parsed.To4() != nil": bAtom("is_v4"), "parsed.To4() == nil": bAtom("(negb is_v4)"),
		})
		for _, st := range sets {
			for _, kindOf := range []string{"ins", "del"} {
				d := "false"
				for _, h := range hits {
					if h.label == kindOf+":"+st {
						d = "(orb " + d + " " + e.conj(h.conds) + ")"
					}
				}
				o.def(fmt.Sprintf("%s: updatePool: the pool is %s c.%s when ...", er, map[string]string{"ins": "inserted into", "del": "deleted from"}[kindOf], st),
					"calc_upd_"+kindOf+"_"+st, "(ipipEnabled vxlanEnabled is_v4 : bool)", "bool", d)
			}
		}
	}
	calcAtoms := func() map[string]val {
		return map[string]val{
			"c.config == nil": bAtom("cfg_nil"), "c.config != nil": bAtom("(negb cfg_nil)"),
			"c.config.IpInIpEnabled != nil": bAtom("ipip_ovr_set"), "c.config.IpInIpEnabled == nil": bAtom("(negb ipip_ovr_set)"),
			"*c.config.IpInIpEnabled":      bAtom("ipip_ovr_val"),
			"c.config.VXLANEnabled != nil": bAtom("vxlan_ovr_set"), "c.config.VXLANEnabled == nil": bAtom("(negb vxlan_ovr_set)"),
			"*c.config.VXLANEnabled":                 bAtom("vxlan_ovr_val"),
			"c.config.ProgramNoEncapClusterRoutes()": bAtom("prog_noencap"),
			"c.config.ProgramIPIPClusterRoutes()":    bAtom("prog_ipip"),
			"len(c.ipipPools) > 0":                   bAtom("has_ipip"),
			"len(c.vxlanPools) > 0":                  bAtom("has_vxlan"),
			"len(c.vxlanPoolsv6) > 0":                bAtom("has_vxlan6"),
			"len(c.noEncapPools) > 0":                bAtom("has_noencap"),
			"len(c.ipipPools) != 0":                  bAtom("has_ipip"),
			"len(c.vxlanPools) != 0":                 bAtom("has_vxlan"),
			"len(c.vxlanPoolsv6) != 0":               bAtom("has_vxlan6"),
			"len(c.noEncapPools) != 0":               bAtom("has_noencap"),
		}
	}
	const calcParams = "(cfg_nil ipip_ovr_set ipip_ovr_val vxlan_ovr_set vxlan_ovr_val prog_ipip prog_noencap has_ipip has_vxlan has_vxlan6 has_noencap : bool)"
	for _, a := range [][2]string{{"IPIPEnabled", "calc_ipip_enabled"}, {"VXLANEnabled", "calc_vxlan_enabled"}, {"VXLANEnabledV6", "calc_vxlan_enabled_v6"}, {"NoEncapNeeded", "calc_no_encap_needed"}} {
		fd := findFunc(f, "EncapsulationCalculator", a[0])
		e := newEnv(f, er+":"+a[0], calcAtoms())
		o.def(er+": func (c *EncapsulationCalculator) "+a[0]+"()", a[1], calcParams, "bool", e.chain(fd.Body.List, retBool, kBool))
	}

	// ---- daemon.go: configParams.Encapsulation.X = encapCalculator.X()
	{
		const dm = "felix/daemon/daemon.go"
		f := parseFile(dm)
		fields := []string{"IPIPEnabled", "VXLANEnabled", "VXLANEnabledV6", "NoEncapNeeded"}
		found := map[string]ast.Expr{}
		ast.Inspect(f, func(n ast.Node) bool {
			as, ok := n.(*ast.AssignStmt)
			if !ok || len(as.Lhs) != 1 || len(as.Rhs) != 1 {
				return true
			}
			for _, fl := range fields {
				if text(as.Lhs[0]) == "configParams.Encapsulation."+fl {
					if _, dup := found[fl]; dup {
						refuse("%s: configParams.Encapsulation.%s is assigned more than once", dm, fl)
					}
					found[fl] = as.Rhs[0]
				}
			}
			return true
		})
		e := newEnv(f, dm, map[string]val{
			"encapCalculator.IPIPEnabled()": bAtom("calc_ipip"), "encapCalculator.VXLANEnabled()": bAtom("calc_vxlan"),
			"encapCalculator.VXLANEnabledV6()": bAtom("calc_vxlan6"), "encapCalculator.NoEncapNeeded()": bAtom("calc_noencap"),
		})
		for _, fl := range fields {
			x, ok := found[fl]
			if !ok {
				refuse("%s: assignment to configParams.Encapsulation.%s not found", dm, fl)
			}
			o.def(dm+": configParams.Encapsulation."+fl+" = "+text(x), "wire_enc_"+fl, "(calc_ipip calc_vxlan calc_vxlan6 calc_noencap : bool)", "bool", e.boolExpr(x))
		}
	}

	// ---- driver.go: the dataplane Config literal
	{
		const dr = "felix/dataplane/driver.go"
		f := parseFile(dr)
		keys := []string{"IPIPEnabled", "VXLANEnabled", "VXLANEnabledV6", "NoEncapNeeded", "ProgramIPIPClusterRoutes", "ProgramNoEncapClusterRoutes"}
		found := map[string]ast.Expr{}
		ast.Inspect(f, func(n ast.Node) bool {
			cl, ok := n.(*ast.CompositeLit)
			if !ok || cl.Type == nil {
				return true
			}
			tt := text(cl.Type)
			if tt != "intdataplane.Config" && tt != "rules.Config" {
				return true
			}
			for _, el := range cl.Elts {
				kv, ok := el.(*ast.KeyValueExpr)
				if !ok {
					continue
				}
				for _, k := range keys {
					if text(kv.Key) == k {
						if _, dup := found[k]; dup {
							refuse("%s: key %s appears twice in the dataplane config literals", dr, k)
						}
						found[k] = kv.Value
					}
				}
			}
			return true
		})
		e := newEnv(f, dr, map[string]val{
			"configParams.Encapsulation.IPIPEnabled": bAtom("enc_ipip"), "configParams.Encapsulation.VXLANEnabled": bAtom("enc_vxlan"),
			"configParams.Encapsulation.VXLANEnabledV6": bAtom("enc_vxlan6"), "configParams.Encapsulation.NoEncapNeeded": bAtom("enc_noencap"),
			"configParams.ProgramIPIPClusterRoutes()": bAtom("prog_ipip"), "configParams.ProgramNoEncapClusterRoutes()": bAtom("prog_noencap"),
		})
		for _, k := range keys {
			x, ok := found[k]
			if !ok {
				refuse("%s: key %s not found in intdataplane.Config / rules.Config literal", dr, k)
			}
			o.def(dr+": "+k+": "+text(x), "wire_dp_"+k, "(enc_ipip enc_vxlan enc_vxlan6 enc_noencap prog_ipip prog_noencap : bool)", "bool", e.boolExpr(x))
		}
	}

	// ---- calc_graph.go: L3 route resolver
	{
		const cg = "felix/calc/calc_graph.go"
		f := parseFile(cg)
		fd := findFunc(f, "", "NewCalculationGraph")
		h := oneHit(walkConds(fd.Body, cg, callsOf("NewL3RouteResolver")), "NewL3RouteResolver", cg)
		e := newEnv(f, cg, map[string]val{
			"conf.BPFEnabled": bAtom("bpf"), "conf.WireguardEnabled": bAtom("wg"), "conf.WireguardEnabledV6": bAtom("wg6"),
			"conf.Encapsulation.IPIPEnabled": bAtom("enc_ipip"), "conf.Encapsulation.VXLANEnabled": bAtom("enc_vxlan"),
			"conf.Encapsulation.VXLANEnabledV6": bAtom("enc_vxlan6"), "conf.Encapsulation.NoEncapNeeded": bAtom("enc_noencap"),
			"conf.ProgramIPIPClusterRoutes()": bAtom("prog_ipip"), "conf.ProgramNoEncapClusterRoutes()": bAtom("prog_noencap"),
		})
		o.def(cg+": the L3 route resolver is created when ...", "l3rr_started", "(bpf wg wg6 enc_ipip enc_vxlan enc_vxlan6 enc_noencap prog_ipip prog_noencap : bool)", "bool", e.conj(h.conds))
	}

	// ---- int_dataplane.go: which managers exist
	{
		const idp = "felix/dataplane/linux/int_dataplane.go"
		f := parseFile(idp)
		fd := findFunc(f, "", "NewIntDataplaneDriver")
		mgrs := []string{"dp.noEncapManager", "dp.noEncapManagerV6", "dp.vxlanManager", "dp.vxlanManagerV6", "dp.ipipManager"}
		hits := walkConds(fd.Body, idp, assignsTo(mgrs...))
		for _, mg := range mgrs {
			h := oneHit(hits, mg, idp)
			e := newEnv(f, idp, map[string]val{
				"config.ProgramNoEncapClusterRoutes": bAtom("dp_prog_noencap"), "config.ProgramIPIPClusterRoutes": bAtom("dp_prog_ipip"),
				"config.NoEncapNeeded": bAtom("dp_noencap_needed"), "config.RulesConfig.IPIPEnabled": bAtom("dp_ipip"),
				"config.RulesConfig.VXLANEnabled": bAtom("dp_vxlan"), "config.RulesConfig.VXLANEnabledV6": bAtom("dp_vxlan6"),
				"config.IPv6Enabled": bAtom("ipv6"), "config.BPFEnabled": bAtom("bpf"),
				"err != nil": bAtom("false"), // start-up failures (MTU detection ...) abort Felix: not an ownership decision
			})
			o.def(idp+" ("+h.at+"): "+mg+" is created when ...", "mgr_"+strings.TrimPrefix(mg, "dp."),
				"(dp_prog_ipip dp_prog_noencap dp_noencap_needed dp_ipip dp_vxlan dp_vxlan6 ipv6 bpf : bool)", "bool", e.conj(h.conds))
		}
	}

	// ---- ipip_mgr.go: the IPIP manager's route manager is only driven when ...
	{
		const im = "felix/dataplane/linux/ipip_mgr.go"
		f := parseFile(im)
		var gates []string
		var descr []string
		uses := 0
		for _, d := range f.Decls {
			fd, ok := d.(*ast.FuncDecl)
			if !ok || fd.Body == nil || fd.Recv == nil || !strings.Contains(text(fd.Recv.List[0].Type), "ipipManager") {
				continue
			}
			hits := walkConds(fd.Body, im, func(n ast.Node) []string {
				c, ok := n.(*ast.CallExpr)
				if !ok {
					return nil
				}
				t := text(c.Fun)
				if strings.HasPrefix(t, "m.routeMgr.") {
					return []string{t}
				}
				return nil
			})
			for _, h := range hits {
				switch h.label {
				case "m.routeMgr.updateParentIfaceAddr", "m.routeMgr.keepDeviceInSync", "m.routeMgr.setTunnelRouteFunc", "m.routeMgr.parentIfaceAddr": // tunnel device upkeep, not route programming
					continue
				case "m.routeMgr.OnUpdate", "m.routeMgr.triggerRouteUpdate", "m.routeMgr.CompleteDeferredWork":
				default:
					refuse("%s (%s): ipipManager uses %s, which this translator does not know", im, h.at, h.label)
				}
				e := newEnv(f, im, map[string]val{"m.dpConfig.ProgramIPIPClusterRoutes": bAtom("dp_prog_ipip")})
				gates = append(gates, e.conj(h.conds))
				descr = append(descr, fd.Name.Name+": "+h.label+" @"+h.at)
				uses++
			}
		}
		if uses == 0 {
			refuse("%s: no use of m.routeMgr found in ipipManager", im)
		}
		o.def(im+": conditions enclosing "+strings.Join(descr, "; "), "ipip_route_gates", "(dp_prog_ipip : bool)", "list bool", "["+strings.Join(gates, "; ")+"]")
		o.info["ipip_route_gate_sites"] = descr
	}
}

func birdSide(o *out) {
	const bp = "confd/pkg/backends/calico/bgp_processor.go"
	f := parseFile(bp)

	// clusterRoutePolicyFromBGPConfig: [locals] ; if <nil guard> { return P } ; switch *cfg.Spec.ProgramClusterRoutes { arms ; default }
	fd := findFunc(f, "", "clusterRoutePolicyFromBGPConfig")
	e := newEnv(f, bp+":clusterRoutePolicyFromBGPConfig", map[string]val{
		"cfg == nil": bAtom("cfg_nil"), "cfg != nil": bAtom("(negb cfg_nil)"),
		"cfg.Spec.ProgramClusterRoutes == nil": bAtom("field_nil"), "cfg.Spec.ProgramClusterRoutes != nil": bAtom("(negb field_nil)"),
		"*cfg.Spec.ProgramClusterRoutes": sAtom("v"),
	})
	o.def(bp+": func clusterRoutePolicyFromBGPConfig (whole body)", "bird_policy_fn", "(cfg_nil field_nil : bool) (v : string)", "policy",
		e.chain(fd.Body.List, retPolicy, kPolicy))
	// the same function once more as a table (nil guard, arms, default) so that the theorems can quantify over ALL strings
	{
		e := newEnv(f, bp+":clusterRoutePolicyFromBGPConfig", e.atoms)
		var guard, guardRes, dflt string
		var arms []string
		var armKeys []string
		stage := 0
		for _, s := range fd.Body.List {
			switch n := s.(type) {
			case *ast.AssignStmt:
				if stage != 0 || n.Tok != token.DEFINE || len(n.Lhs) != 1 {
					refuse("%s: unexpected assignment `%s`", e.what, text(s))
				}
				v := retPolicy(e, n.Rhs[0])
				e.locals[n.Lhs[0].(*ast.Ident).Name] = &v
			case *ast.IfStmt:
				if stage != 0 || n.Else != nil || n.Init != nil || len(n.Body.List) != 1 {
					refuse("%s (%s): expected the single nil guard `if ... { return <policy> }`", e.what, pos(s))
				}
				r, ok := n.Body.List[0].(*ast.ReturnStmt)
				if !ok || len(r.Results) != 1 {
					refuse("%s (%s): nil guard does not return a policy", e.what, pos(s))
				}
				guard = e.boolExpr(n.Cond)
				guardRes = retPolicy(e, r.Results[0]).coq
				stage = 1
			case *ast.SwitchStmt:
				if stage != 1 || n.Init != nil || n.Tag == nil || text(n.Tag) != "*cfg.Spec.ProgramClusterRoutes" {
					refuse("%s (%s): expected `switch *cfg.Spec.ProgramClusterRoutes` after the nil guard", e.what, pos(s))
				}
				for _, c := range n.Body.List {
					cc := c.(*ast.CaseClause)
					var ret *ast.ReturnStmt
					for _, st := range cc.Body {
						if r, ok := st.(*ast.ReturnStmt); ok {
							ret = r
						} else if !isLogCall(st) {
							refuse("%s (%s): unexpected statement in a switch arm: %s", e.what, pos(st), text(st))
						}
					}
					if ret == nil || len(ret.Results) != 1 {
						refuse("%s (%s): switch arm without `return <policy>`", e.what, pos(cc))
					}
					p := retPolicy(e, ret.Results[0]).coq
					if cc.List == nil {
						dflt = p
						continue
					}
					for _, x := range cc.List {
						v := e.expr(x)
						if v.k != kString {
							refuse("%s (%s): non-string case", e.what, pos(x))
						}
						arms = append(arms, "("+v.coq+", "+p+")")
						armKeys = append(armKeys, v.coq)
					}
				}
				stage = 2
			default:
				if !isLogCall(s) {
					refuse("%s (%s): unexpected statement `%s`", e.what, pos(s), text(s))
				}
			}
		}
		if stage != 2 || dflt == "" {
			refuse("%s: nil guard + switch with a default arm not found", e.what)
		}
		o.def(bp+": clusterRoutePolicyFromBGPConfig: condition of the nil guard", "bird_nil_guard", "(cfg_nil field_nil : bool)", "bool", guard)
		o.def(bp+": ... policy returned by the nil guard", "bird_nil_result", "", "policy", guardRes)
		o.def(bp+": ... switch arms in source order", "bird_arms", "", "list (string * policy)", "["+strings.Join(arms, ";\n   ")+"]")
		o.def(bp+": ... default arm", "bird_switch_default", "", "policy", dflt)
		o.info["bird_arm_keys"] = armKeys
	}

	poolAtoms := map[string]val{"ippool.IPIPMode": sAtom("ipip_mode"), "ippool.VXLANMode": sAtom("vxlan_mode")}
	for _, a := range [][2]string{{"poolUsesIPIP", "bird_pool_uses_ipip"}, {"poolUsesVXLAN", "bird_pool_uses_vxlan"}} {
		fd := findFunc(f, "", a[0])
		e := newEnv(f, bp+":"+a[0], poolAtoms)
		o.def(bp+": func "+a[0], a[1], "(ipip_mode vxlan_mode : string)", "bool", e.chain(fd.Body.List, retBool, kBool))
	}
	{
		fd := findFunc(f, "clusterRoutePolicy", "programsPool")
		e := newEnv(f, bp+":programsPool", map[string]val{
			"poolUsesVXLAN(ippool)": bAtom("uses_vxlan"), "poolUsesIPIP(ippool)": bAtom("uses_ipip"),
			"p.ipip": bAtom("pol_ipip"), "p.noEncap": bAtom("pol_noencap"),
		})
		o.def(bp+": func (p clusterRoutePolicy) programsPool", "bird_programs_pool", "(pol_ipip pol_noencap uses_ipip uses_vxlan : bool)", "bool",
			e.chain(fd.Body.List, retBool, kBool))
	}
	{
		fd := findFunc(f, "client", "processIPPool")
		e := newEnv(f, bp+":processIPPool", map[string]val{
			"ippool.DisableBGPExport": bAtom("disable_export"), "forProgrammingKernel": bAtom("for_kernel"),
			"poolUsesVXLAN(ippool)": bAtom("uses_vxlan"), "policy.programsPool(ippool)": bAtom("programs_pool"),
		})
		o.def(bp+": func (c *client) processIPPool: the action handed to emitFilterStatementForIPPools", "bird_filter_action",
			"(disable_export for_kernel uses_vxlan programs_pool : bool)", "action", e.chain(fd.Body.List, retAction, kAction))
	}
	{ // processIPPools: the kernel filter is built by processIPPool(&ippool, policy, true, filterActionForKernel, ...), the policy comes from clusterRoutePolicyFromBGPConfig(pc.globalBGPConfig, ...)
		fd := findFunc(f, "client", "processIPPools")
		okPolicy, okKernel := false, false
		ast.Inspect(fd.Body, func(n ast.Node) bool {
			switch s := n.(type) {
			case *ast.AssignStmt:
				if len(s.Lhs) == 1 && len(s.Rhs) == 1 && text(s.Lhs[0]) == "policy" {
					if c, ok := s.Rhs[0].(*ast.CallExpr); ok && text(c.Fun) == "clusterRoutePolicyFromBGPConfig" && len(c.Args) == 2 && text(c.Args[0]) == "pc.globalBGPConfig" {
						okPolicy = true
					} else {
						refuse("%s: processIPPools derives `policy` from %s", bp, text(s.Rhs[0]))
					}
				}
			case *ast.CallExpr:
				if text(s.Fun) == "c.processIPPool" && len(s.Args) == 6 && text(s.Args[2]) == "true" {
					if text(s.Args[0]) == "&ippool" && text(s.Args[1]) == "policy" && text(s.Args[3]) == "filterActionForKernel" {
						okKernel = true
					} else {
						refuse("%s: processIPPools builds the kernel filter with unexpected arguments: %s", bp, text(s))
					}
				}
			}
			return true
		})
		if !okPolicy || !okKernel {
			refuse("%s: processIPPools: policy := clusterRoutePolicyFromBGPConfig(pc.globalBGPConfig, _) / c.processIPPool(&ippool, policy, true, filterActionForKernel, ...) not found", bp)
		}
		// under which conditions (on the family, on whether the local subnet is known, on the POOL'S ATTRIBUTES) the kernel
		// statement of a pool is produced at all; `err != nil` (datastore read / JSON decoding failed) is taken to be false
		hits := walkConds(fd.Body, bp+":processIPPools", func(n ast.Node) []string {
			if c, ok := n.(*ast.CallExpr); ok && text(c.Fun) == "c.processIPPool" && len(c.Args) == 6 && text(c.Args[2]) == "true" {
				return []string{"kernel"}
			}
			return nil
		})
		h := oneHit(hits, "kernel", bp+":processIPPools")
		e := newEnv(f, bp+":processIPPools", map[string]val{
			"err != nil": bAtom("false"), "err == nil": bAtom("true"),
			"ipVersion == 6": bAtom("(negb is_v4)"), "ipVersion == 4": bAtom("is_v4"),
			"localSubnetErr == nil": bAtom("subnet_ok"), "localSubnetErr != nil": bAtom("(negb subnet_ok)"),
			"ippool.Disabled": bAtom("disabled"), "ippool.Masquerade": bAtom("nat_outgoing"), "ippool.DisableBGPExport": bAtom("disable_bgp_export"),
		})
		o.def(bp+": processIPPools produces the pool's kernel-filter statement when ...", "bird_kernel_stmt_produced",
			"(is_v4 subnet_ok disabled nat_outgoing disable_bgp_export : bool)", "bool", e.conj(h.conds))
	}
}

func docSide(o *out) {
	const dd = "design/cluster-route-programming/DESIGN.md"
	raw, err := os.ReadFile(filepath.Join(repo, dd))
	if err != nil {
		refuse("%s: %v", dd, err)
	}
	lines := strings.Split(string(raw), "\n")
	cells := func(l string) []string {
		l = strings.TrimSpace(l)
		if !strings.HasPrefix(l, "|") {
			return nil
		}
		p := strings.Split(strings.Trim(l, "|"), "|")
		for i := range p {
			p[i] = strings.TrimSpace(p[i])
		}
		return p
	}
	tick := regexp.MustCompile("^`([A-Za-z]+)`$")
	var values, pairings []string
	for i, l := range lines {
		h := cells(l)
		if h == nil {
			continue
		}
		isVal := len(h) == 3 && h[0] == "Value" && h[1] == "IPIP pools" && h[2] == "No-encap pools"
		isPair := len(h) == 3 && h[0] == "FelixConfiguration" && h[1] == "BGPConfiguration" && h[2] == "Result"
		if !isVal && !isPair {
			continue
		}
		for j := i + 2; j < len(lines); j++ {
			c := cells(lines[j])
			if c == nil {
				break
			}
			if len(c) != 3 {
				refuse("%s:%d: table row with %d cells", dd, j+1, len(c))
			}
			a := tick.FindStringSubmatch(c[0])
			if a == nil {
				refuse("%s:%d: first cell %q is not a `Value`", dd, j+1, c[0])
			}
			if isVal {
				yn := func(s string) string {
					switch s {
					case "yes":
						return "true"
					case "no":
						return "false"
					}
					refuse("%s:%d: cell %q is neither yes nor no", dd, j+1, s)
					return ""
				}
				values = append(values, fmt.Sprintf("(%s, (%s, %s))", coqString(a[1]), yn(c[1]), yn(c[2])))
			} else {
				b := tick.FindStringSubmatch(c[1])
				if b == nil {
					refuse("%s:%d: second cell %q is not a `Value`", dd, j+1, c[1])
				}
				pairings = append(pairings, fmt.Sprintf("(%s, %s)", coqString(a[1]), coqString(b[1])))
			}
		}
	}
	if len(values) == 0 || len(pairings) == 0 {
		refuse("%s: value table (| Value | IPIP pools | No-encap pools |) or pairing table (| FelixConfiguration | BGPConfiguration | Result |) not found", dd)
	}
	all := strings.Join(strings.Fields(string(raw)), " ")
	fdm := regexp.MustCompile("`FelixConfiguration\\.spec\\.programClusterRoutes` — which classes \\*\\*Felix\\*\\* programs\\. Default `([A-Za-z]+)`\\.").FindStringSubmatch(all)
	bdm := regexp.MustCompile("`BGPConfiguration\\.spec\\.programClusterRoutes` — which classes \\*\\*BIRD\\*\\* programs\\. Default `([A-Za-z]+)`\\.").FindStringSubmatch(all)
	if fdm == nil || bdm == nil {
		refuse("%s: the two `... — which classes **X** programs. Default `V`.` sentences not found", dd)
	}
	o.def(dd+": table `Value | IPIP pools | No-encap pools`", "doc_values", "", "list (string * policy)", "["+strings.Join(values, "; ")+"]")
	o.def(dd+": table of supported combinations (FelixConfiguration, BGPConfiguration)", "doc_pairings", "", "list (string * string)", "["+strings.Join(pairings, "; ")+"]")
	o.def(dd+": default of FelixConfiguration.spec.programClusterRoutes", "doc_felix_default", "", "string", coqString(fdm[1]))
	o.def(dd+": default of BGPConfiguration.spec.programClusterRoutes", "doc_bgp_default", "", "string", coqString(bdm[1]))
}

const gRecord = `Definition G : gen := {|
  g_encap_never := encap_never; g_encap_always := encap_always; g_encap_cross := encap_crosssubnet;
  g_felix_api_enum := felix_api_enum; g_bgp_api_enum := bgp_api_enum;
  g_felix_options := felix_options; g_felix_default := felix_default;
  g_prog_ipip := felix_prog_ipip; g_prog_noencap := felix_prog_noencap;
  g_pool_reached := calc_pool_update_reached;
  g_pool_ipip := calc_pool_ipip_enabled; g_pool_vxlan := calc_pool_vxlan_enabled;
  g_api_reached := calc_api_pool_update_reached;
  g_api_ipip := calc_api_pool_ipip_enabled; g_api_vxlan := calc_api_pool_vxlan_enabled;
  g_api_modes := ((api_IPIPModeNever, api_IPIPModeAlways, api_IPIPModeCrossSubnet), (api_VXLANModeNever, api_VXLANModeAlways, api_VXLANModeCrossSubnet));
  g_bird_stmt_produced := bird_kernel_stmt_produced;
  g_ins_ipip := calc_upd_ins_ipipPools; g_del_ipip := calc_upd_del_ipipPools;
  g_ins_vxlan := calc_upd_ins_vxlanPools; g_del_vxlan := calc_upd_del_vxlanPools;
  g_ins_vxlan6 := calc_upd_ins_vxlanPoolsv6; g_del_vxlan6 := calc_upd_del_vxlanPoolsv6;
  g_ins_noencap := calc_upd_ins_noEncapPools; g_del_noencap := calc_upd_del_noEncapPools;
  g_calc_ipip := calc_ipip_enabled; g_calc_vxlan := calc_vxlan_enabled;
  g_calc_vxlan6 := calc_vxlan_enabled_v6; g_calc_noencap := calc_no_encap_needed;
  g_enc_ipip := wire_enc_IPIPEnabled; g_enc_vxlan := wire_enc_VXLANEnabled;
  g_enc_vxlan6 := wire_enc_VXLANEnabledV6; g_enc_noencap := wire_enc_NoEncapNeeded;
  g_dp_ipip := wire_dp_IPIPEnabled; g_dp_vxlan := wire_dp_VXLANEnabled; g_dp_vxlan6 := wire_dp_VXLANEnabledV6;
  g_dp_noencap_needed := wire_dp_NoEncapNeeded;
  g_dp_prog_ipip := wire_dp_ProgramIPIPClusterRoutes; g_dp_prog_noencap := wire_dp_ProgramNoEncapClusterRoutes;
  g_l3rr := l3rr_started;
  g_mgr_noencap := mgr_noEncapManager; g_mgr_noencap6 := mgr_noEncapManagerV6;
  g_mgr_vxlan := mgr_vxlanManager; g_mgr_vxlan6 := mgr_vxlanManagerV6; g_mgr_ipip := mgr_ipipManager;
  g_ipip_gates := ipip_route_gates;
  g_bird_policy_fn := bird_policy_fn;
  g_bird_nil_guard := bird_nil_guard; g_bird_nil_result := bird_nil_result;
  g_bird_arms := bird_arms; g_bird_switch_default := bird_switch_default;
  g_bird_uses_ipip := bird_pool_uses_ipip; g_bird_uses_vxlan := bird_pool_uses_vxlan;
  g_bird_programs_pool := bird_programs_pool; g_bird_filter_action := bird_filter_action;
  g_doc_values := doc_values; g_doc_pairings := doc_pairings;
  g_doc_felix_default := doc_felix_default; g_doc_bgp_default := doc_bgp_default
|}.
`
