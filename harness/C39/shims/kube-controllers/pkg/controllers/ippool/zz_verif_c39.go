//go:build verif

// Add-only access for the C39 correspondence driver: builds the real IPPoolController over caller supplied
// indexers / clientset / ipam (the same construction the package's own unit tests use) and exposes reconcile().
package ippool

import (
	"context"
	"fmt"

	v3 "github.com/projectcalico/api/pkg/apis/projectcalico/v3"
	"github.com/projectcalico/api/pkg/client/clientset_generated/clientset"
	metav1 "k8s.io/apimachinery/pkg/apis/meta/v1"
	"k8s.io/client-go/tools/cache"
	"k8s.io/client-go/util/workqueue"

	"github.com/projectcalico/calico/libcalico-go/lib/ipam"
)

type verifInformer struct {
	cache.SharedIndexInformer
	indexer cache.Indexer
}

func (f *verifInformer) GetIndexer() cache.Indexer { return f.indexer }
func (f *verifInformer) GetStore() cache.Store     { return f.indexer }

// VerifNewController returns a controller reading pools and blocks from the given indexers.
func VerifNewController(ctx context.Context, cli clientset.Interface, pools, blocks cache.Indexer, ic ipam.Interface) *IPPoolController {
	return &IPPoolController{
		ctx:           ctx,
		cli:           cli,
		poolInformer:  &verifInformer{indexer: pools},
		blockInformer: &verifInformer{indexer: blocks},
		ipam:          ic,
	}
}

// VerifReconcile runs one synchronous reconcile pass (what processNextItem does for the single queue key).
func (c *IPPoolController) VerifReconcile() error { return c.reconcile() }

// VerifSetCondition / VerifHasCondition expose the condition-list helpers to the driver's "conditions" stream.
func VerifSetCondition(p *v3.IPPool, c metav1.Condition) bool { return setConditionOnPool(p, c) }
func VerifHasCondition(p *v3.IPPool, t string, s metav1.ConditionStatus) bool {
	return hasCondition(p, t, s)
}

type verifQueue struct {
	workqueue.TypedRateLimitingInterface[string]
	adds, forgets, requeues int
}

func (f *verifQueue) AddRateLimited(item string)  { f.adds++ }
func (f *verifQueue) Forget(item string)          { f.forgets++ }
func (f *verifQueue) NumRequeues(item string) int { return f.requeues }

// VerifHandleErr runs the real handleErr for the single work item with the given reconcile result and requeue count and
// reports how often the item was re-added (rate limited) and forgotten.
func VerifHandleErr(failed bool, requeues int) (int, int) {
	q := &verifQueue{requeues: requeues}
	c := &IPPoolController{queue: q}
	var err error
	if failed {
		err = fmt.Errorf("reconcile failed")
	}
	c.handleErr(err, reconcileKey)
	return q.adds, q.forgets
}
