//go:build verif

// C39 correspondence driver.  Runs the REAL kube-controllers IPPoolController.reconcile() synchronously over a fake
// clientset and hand-fed informer indexers (the construction of the package's own unit tests), on generated pool
// configurations and histories (create / disable / enable / delete request / foreign finalizer removed / block appears /
// block gone), and prints one JSON line per case carrying the case as a Coq term of type Verif.C39.Spec.case:
// the operations, and around every reconcile the pools the controller's cache showed, the blocks, the pools left in the
// datastore, the ReleasePoolAffinities calls and whether reconcile returned an error.
//
// The part of the API server the controller relies on is simulated here (and mirrored by Model.api_step / gc):
// a delete request removes an object that has no finalizers and otherwise only sets deletionTimestamp; an object with a
// deletionTimestamp disappears when its last finalizer is removed; the informer cache is in sync when reconcile starts.
package main

import (
	"context"
	"encoding/json"
	"flag"
	"fmt"
	"io"
	"math/big"
	"net"
	"os"
	"slices"
	"sort"
	"strings"
	"time"

	v3 "github.com/projectcalico/api/pkg/apis/projectcalico/v3"
	"github.com/projectcalico/api/pkg/client/clientset_generated/clientset/fake"
	"github.com/sirupsen/logrus"
	apierrors "k8s.io/apimachinery/pkg/api/errors"
	metav1 "k8s.io/apimachinery/pkg/apis/meta/v1"
	"k8s.io/apimachinery/pkg/runtime"
	"k8s.io/apimachinery/pkg/runtime/schema"
	k8stesting "k8s.io/client-go/testing"
	"k8s.io/client-go/tools/cache"

	"github.com/projectcalico/calico/kube-controllers/pkg/controllers/ippool"
	"github.com/projectcalico/calico/libcalico-go/lib/ipam"
	cnet "github.com/projectcalico/calico/libcalico-go/lib/net"
)

// ---------------------------------------------------------------- rng

type rng struct{ s uint64 }

func (r *rng) next() uint64 {
	r.s += 0x9e3779b97f4a7c15
	z := r.s
	z = (z ^ (z >> 30)) * 0xbf58476d1ce4e5b9
	z = (z ^ (z >> 27)) * 0x94d049bb133111eb
	return z ^ (z >> 31)
}
func (r *rng) intn(n int) int      { return int(r.next() % uint64(n)) }
func (r *rng) chance(p int) bool   { return r.intn(100) < p }
func pick[T any](r *rng, xs []T) T { return xs[r.intn(len(xs))] }

// ---------------------------------------------------------------- descriptions

const otherFinalizer = "example.com/other-finalizer"

type condDesc struct {
	set    bool
	status metav1.ConditionStatus
	reason string
}

type poolDesc struct {
	name     string
	created  int64
	cidr     string
	disabled bool
	deleting bool
	cond     condDesc
	fin      bool
	ofin     bool
	extra    bool // carries an unrelated condition type as well
}

type opDesc struct {
	kind string // create, disable, enable, delete, dropother, blockadd, blockdel
	pool poolDesc
	name string
	cidr string
}

// ---------------------------------------------------------------- the world around the real controller

type recIPAM struct {
	ipam.Interface
	released []cnet.IPNet
}

func (f *recIPAM) ReleasePoolAffinities(ctx context.Context, pool cnet.IPNet) error {
	f.released = append(f.released, pool)
	return nil
}

type world struct {
	cli      *fake.Clientset
	poolIdx  cache.Indexer
	blockIdx cache.Indexer
	ipam     *recIPAM
	ctrl     *ippool.IPPoolController
	blocks   []string
	sfail    map[string]bool // injected for the current pass: UpdateStatus of these pools fails
	ufail    map[string]bool // injected for the current pass: Update (finalizers) of these pools fails
}

var poolGVR = v3.SchemeGroupVersion.WithResource("ippools")

func newWorld() *world {
	w := &world{
		cli:      fake.NewClientset(),
		poolIdx:  cache.NewIndexer(cache.MetaNamespaceKeyFunc, cache.Indexers{}),
		blockIdx: cache.NewIndexer(cache.MetaNamespaceKeyFunc, cache.Indexers{}),
		ipam:     &recIPAM{},
	}
	// The API server side of a write: status is a subresource (UpdateStatus changes only .status, Update never
	// changes .status), and a write chosen by the case fails with a conflict and changes nothing.
	w.cli.PrependReactor("update", "ippools", func(a k8stesting.Action) (bool, runtime.Object, error) {
		obj := a.(k8stesting.UpdateAction).GetObject().(*v3.IPPool)
		sub := a.GetSubresource()
		if (sub == "status" && w.sfail[obj.Name]) || (sub == "" && w.ufail[obj.Name]) {
			return true, nil, apierrors.NewConflict(schema.GroupResource{Group: "projectcalico.org", Resource: "ippools"}, obj.Name, fmt.Errorf("injected"))
		}
		stored, err := w.cli.Tracker().Get(poolGVR, "", obj.Name)
		if err != nil {
			return true, nil, err
		}
		cur := stored.(*v3.IPPool).DeepCopy()
		var next *v3.IPPool
		if sub == "status" {
			next = cur
			next.Status = obj.Status.DeepCopy()
		} else {
			next = obj.DeepCopy()
			next.Status = cur.Status
		}
		if err := w.cli.Tracker().Update(poolGVR, next, ""); err != nil {
			return true, nil, err
		}
		return true, next.DeepCopy(), nil
	})
	w.ctrl = ippool.VerifNewController(context.Background(), w.cli, w.poolIdx, w.blockIdx, w.ipam)
	return w
}

func must(err error) {
	if err != nil {
		panic(err)
	}
}

func (w *world) pools() []*v3.IPPool {
	l, err := w.cli.ProjectcalicoV3().IPPools().List(context.Background(), metav1.ListOptions{})
	must(err)
	out := make([]*v3.IPPool, 0, len(l.Items))
	for i := range l.Items {
		out = append(out, l.Items[i].DeepCopy())
	}
	sort.Slice(out, func(i, j int) bool { return out[i].Name < out[j].Name })
	return out
}

func (w *world) get(name string) *v3.IPPool {
	p, err := w.cli.ProjectcalicoV3().IPPools().Get(context.Background(), name, metav1.GetOptions{})
	if err != nil {
		return nil
	}
	return p.DeepCopy()
}

func (w *world) put(p *v3.IPPool) {
	_, err := w.cli.ProjectcalicoV3().IPPools().Update(context.Background(), p, metav1.UpdateOptions{})
	must(err)
}

func buildPool(d poolDesc) *v3.IPPool {
	p := &v3.IPPool{
		ObjectMeta: metav1.ObjectMeta{Name: d.name, CreationTimestamp: metav1.NewTime(time.Unix(d.created, 0))},
		Spec:       v3.IPPoolSpec{CIDR: d.cidr, Disabled: d.disabled},
	}
	if d.deleting {
		ts := metav1.NewTime(time.Unix(100000, 0))
		p.DeletionTimestamp = &ts
	}
	if d.ofin {
		p.Finalizers = append(p.Finalizers, otherFinalizer)
	}
	if d.fin {
		p.Finalizers = append(p.Finalizers, ippool.IPPoolFinalizer)
	}
	var conds []metav1.Condition
	if d.extra {
		conds = append(conds, metav1.Condition{Type: "SomethingElse", Status: metav1.ConditionTrue, Reason: "Because"})
	}
	if d.cond.set {
		// the controller's own message for the conditions it writes (it compares the message too before writing)
		msg := map[string]string{
			v3.IPPoolReasonOK:          "IPPool is available for IP allocation.",
			v3.IPPoolReasonCIDROverlap: "CIDR overlaps another pool; disabled to prevent IP allocation conflicts.",
			v3.IPPoolReasonTerminating: "IPPool is being deleted",
			v3.IPPoolReasonDisabled:    "IPPool.Spec.Disabled is true",
		}[d.cond.reason]
		conds = append(conds, metav1.Condition{Type: v3.IPPoolConditionAllocatable, Status: d.cond.status, Reason: d.cond.reason, Message: msg})
	}
	if conds != nil || d.extra {
		p.Status = &v3.IPPoolStatus{Conditions: conds}
	}
	return p
}

// the API server collects terminating objects that have no finalizer left
func (w *world) gc() {
	for _, p := range w.pools() {
		if p.DeletionTimestamp != nil && len(p.Finalizers) == 0 {
			must(w.cli.ProjectcalicoV3().IPPools().Delete(context.Background(), p.Name, metav1.DeleteOptions{}))
		}
	}
}

// the informer caches catch up with the datastore
func (w *world) sync() {
	var objs []any
	for _, p := range w.pools() {
		objs = append(objs, p)
	}
	must(w.poolIdx.Replace(objs, ""))
	var bs []any
	for i, c := range w.blocks {
		bs = append(bs, &v3.IPAMBlock{ObjectMeta: metav1.ObjectMeta{Name: fmt.Sprintf("block-%d", i)}, Spec: v3.IPAMBlockSpec{CIDR: c}})
	}
	must(w.blockIdx.Replace(bs, ""))
}

func (w *world) apply(o opDesc) {
	ctx := context.Background()
	switch o.kind {
	case "create":
		if w.get(o.pool.name) != nil {
			return
		}
		_, err := w.cli.ProjectcalicoV3().IPPools().Create(ctx, buildPool(o.pool), metav1.CreateOptions{})
		must(err)
	case "disable", "enable":
		if p := w.get(o.name); p != nil {
			p.Spec.Disabled = o.kind == "disable"
			w.put(p)
		}
	case "delete":
		if p := w.get(o.name); p != nil {
			if len(p.Finalizers) == 0 {
				must(w.cli.ProjectcalicoV3().IPPools().Delete(ctx, p.Name, metav1.DeleteOptions{}))
			} else if p.DeletionTimestamp == nil {
				ts := metav1.NewTime(time.Unix(100000, 0))
				p.DeletionTimestamp = &ts
				w.put(p)
			}
		}
		w.gc()
	case "dropother":
		if p := w.get(o.name); p != nil {
			p.Finalizers = slices.DeleteFunc(p.Finalizers, func(s string) bool { return s != ippool.IPPoolFinalizer })
			w.put(p)
		}
		w.gc()
	case "blockadd":
		w.blocks = append([]string{o.cidr}, w.blocks...)
	case "blockdel":
		w.blocks = slices.DeleteFunc(w.blocks, func(s string) bool { return rawTerm(s) == rawTerm(o.cidr) })
	}
}

// ---------------------------------------------------------------- Coq terms

func bytesTerm(s string) string {
	if s == "" {
		return "[]"
	}
	bs := make([]string, len(s))
	for i := 0; i < len(s); i++ {
		bs[i] = fmt.Sprint(s[i])
	}
	return "[" + strings.Join(bs, ";") + "]"
}

// the CIDR text as the model sees it: (is v6, address as written, length), None when net.ParseCIDR rejects it
func parseRaw(text string) (v6 bool, addr *big.Int, l int, ok bool) {
	ipAddr, ipNet, err := net.ParseCIDR(text)
	if err != nil {
		return false, nil, 0, false
	}
	ones, _ := ipNet.Mask.Size()
	if v4 := ipAddr.To4(); v4 != nil && !strings.Contains(text, ":") {
		return false, new(big.Int).SetBytes(v4), ones, true
	}
	return true, new(big.Int).SetBytes(ipAddr.To16()), ones, true
}

func rawTerm(text string) string {
	v6, a, l, ok := parseRaw(text)
	if !ok {
		return "None"
	}
	return fmt.Sprintf("(Some (%v, %s, %d%%nat))", v6, a.String(), l)
}

func kcidrTerm(n cnet.IPNet) string {
	ones, bits := n.Mask.Size()
	if bits == 32 {
		return fmt.Sprintf("(false, mkP %s %d%%nat)", new(big.Int).SetBytes(n.IP.To4()).String(), ones)
	}
	return fmt.Sprintf("(true, mkP %s %d%%nat)", new(big.Int).SetBytes(n.IP.To16()).String(), ones)
}

type obs struct {
	name     string
	cidr     string
	disabled bool
	deleting bool
	hasCond  bool
	status   string
	reason   string
	fin      bool
	ofin     bool
	term     string
}

func observe(p *v3.IPPool) obs {
	o := obs{name: p.Name, cidr: p.Spec.CIDR, disabled: p.Spec.Disabled, deleting: p.DeletionTimestamp != nil}
	cond := "None"
	if p.Status != nil {
		for _, c := range p.Status.Conditions {
			if c.Type == v3.IPPoolConditionAllocatable {
				st := "SUnknown"
				switch c.Status {
				case metav1.ConditionTrue:
					st = "STrue"
				case metav1.ConditionFalse:
					st = "SFalse"
				}
				rs := "ROther"
				switch c.Reason {
				case v3.IPPoolReasonOK:
					rs = "ROK"
				case v3.IPPoolReasonDisabled:
					rs = "RDisabled"
				case v3.IPPoolReasonTerminating:
					rs = "RTerminating"
				case v3.IPPoolReasonCIDROverlap:
					rs = "ROverlap"
				}
				o.hasCond, o.status, o.reason = true, st, rs
				cond = fmt.Sprintf("(Some (%s, %s))", st, rs)
				break
			}
		}
	}
	for _, f := range p.Finalizers {
		if f == ippool.IPPoolFinalizer {
			o.fin = true
		} else {
			o.ofin = true
		}
	}
	o.term = fmt.Sprintf("(mkPool %s %d %s %v %v %s %v %v)", bytesTerm(p.Name), p.CreationTimestamp.Unix(), rawTerm(p.Spec.CIDR),
		o.disabled, o.deleting, cond, o.fin, o.ofin)
	return o
}

func poolsTerm(ps []*v3.IPPool) (string, []obs) {
	var ts []string
	var os []obs
	for _, p := range ps {
		o := observe(p)
		os = append(os, o)
		ts = append(ts, o.term)
	}
	return "[" + strings.Join(ts, "; ") + "]", os
}

func blocksTerm(bs []string) string {
	ts := make([]string, len(bs))
	for i, b := range bs {
		ts[i] = rawTerm(b)
	}
	return "[" + strings.Join(ts, "; ") + "]"
}

func opTerm(o opDesc) string {
	switch o.kind {
	case "create":
		return "(OpCreate " + observe(buildPool(o.pool)).term + ")"
	case "disable":
		return "(OpSetDisabled " + bytesTerm(o.name) + " true)"
	case "enable":
		return "(OpSetDisabled " + bytesTerm(o.name) + " false)"
	case "delete":
		return "(OpDelete " + bytesTerm(o.name) + ")"
	case "dropother":
		return "(OpDropOther " + bytesTerm(o.name) + ")"
	case "blockadd":
		return "(OpBlockAdd " + rawTerm(o.cidr) + ")"
	case "blockdel":
		return "(OpBlockDel " + rawTerm(o.cidr) + ")"
	}
	panic(o.kind)
}

func opText(o opDesc) string {
	switch o.kind {
	case "create":
		return fmt.Sprintf("create %s %s t=%d disabled=%v otherfin=%v", o.pool.name, o.pool.cidr, o.pool.created, o.pool.disabled, o.pool.ofin)
	case "blockadd", "blockdel":
		return o.kind + " " + o.cidr
	}
	return o.kind + " " + o.name
}

// ---------------------------------------------------------------- overlap helper for tags (driver side only)

func overlapText(a, b string) bool {
	_, na, ea := net.ParseCIDR(a)
	_, nb, eb := net.ParseCIDR(b)
	if ea != nil || eb != nil || len(na.IP) != len(nb.IP) {
		return false
	}
	return na.Contains(nb.IP) || nb.Contains(na.IP)
}

// ---------------------------------------------------------------- generators

var names = []string{"a", "ab", "abc", "b", "p1", "p10", "p2", "pool-0", "pool-1", "pool-10", "default-ipv4-ippool", "default-ipv6-ippool", "z", "A", "P1", "a-", "a.b"}
var badCIDRs = []string{"garbage", "10.0.0.0/33", "", "10.0.0/24", "fd00::/129", "10.0.0.0"}

func v4Text(a uint32, l int) string {
	return fmt.Sprintf("%d.%d.%d.%d/%d", byte(a>>24), byte(a>>16), byte(a>>8), byte(a), l)
}

func v6Text(hi, lo uint64, l int) string {
	b := make(net.IP, 16)
	for i := 0; i < 8; i++ {
		b[i] = byte(hi >> (56 - 8*i))
		b[8+i] = byte(lo >> (56 - 8*i))
	}
	return fmt.Sprintf("%s/%d", b.String(), l)
}

// pool CIDRs crowded into 10.0.0.0/22 (lengths 22..28) so that overlaps are common, a few elsewhere, a few IPv6
func genCIDR(r *rng) string {
	switch k := r.intn(20); {
	case k < 13:
		l := pick(r, []int{22, 23, 24, 24, 24, 25, 25, 26, 26, 27, 28})
		a := uint32(0x0A000000) + uint32(r.intn(1024))
		if !r.chance(15) {
			a &= ^uint32(0) << uint(32-l)
		}
		return v4Text(a, l)
	case k < 15:
		return v4Text(0xC0A80000+uint32(r.intn(4))<<8, 24)
	case k < 16:
		return pick(r, []string{"0.0.0.0/0", "10.0.0.0/8", "10.0.0.0/32", "10.0.3.255/32"})
	default:
		l := pick(r, []int{46, 48, 48, 56, 64, 64, 112})
		hi := uint64(0xfd00000000000000) | uint64(r.intn(4))<<32 | uint64(r.intn(2))<<16 | uint64(r.intn(2))
		lo := uint64(0)
		if r.chance(15) {
			lo = uint64(r.intn(1 << 16))
		} else {
			if l < 64 {
				hi &= ^uint64(0) << uint(64-l)
			}
		}
		if l == 112 {
			lo = uint64(r.intn(4)) << 16
			if r.chance(15) {
				lo |= uint64(r.intn(1 << 16))
			}
		}
		return v6Text(hi, lo, l)
	}
}

// a block CIDR, usually inside the given pool CIDR
func genBlock(r *rng, poolCIDRs []string, malformed bool) string {
	if malformed && r.chance(25) {
		return pick(r, badCIDRs)
	}
	if len(poolCIDRs) == 0 || r.chance(12) {
		c := genCIDR(r)
		return c
	}
	pc := pick(r, poolCIDRs)
	v6, a, l, ok := parseRaw(pc)
	if !ok {
		return genCIDR(r)
	}
	w := 32
	if v6 {
		w = 128
	}
	bl := l + r.intn(5)
	if r.chance(10) && l >= 2 {
		bl = l - 1 - r.intn(2) // a block larger than the pool: its base address may or may not lie in the pool
	}
	if bl > w {
		bl = w
	}
	// network of the pool + random offset aligned to the block length
	netw := new(big.Int).Rsh(a, uint(w-l))
	netw.Lsh(netw, uint(w-l))
	if bl > l {
		off := new(big.Int).SetUint64(r.next() % (uint64(1) << uint(min(bl-l, 16))))
		off.Lsh(off, uint(w-bl))
		netw.Or(netw, off)
	}
	buf := netw.FillBytes(make([]byte, w/8))
	return fmt.Sprintf("%s/%d", net.IP(buf).String(), bl)
}

func genCond(r *rng) condDesc {
	switch r.intn(12) {
	case 0, 1, 2:
		return condDesc{}
	case 3, 4, 5, 6:
		return condDesc{true, metav1.ConditionTrue, v3.IPPoolReasonOK}
	case 7, 8:
		return condDesc{true, metav1.ConditionFalse, v3.IPPoolReasonCIDROverlap}
	case 9:
		return condDesc{true, metav1.ConditionFalse, v3.IPPoolReasonDisabled}
	case 10:
		return condDesc{true, metav1.ConditionFalse, v3.IPPoolReasonTerminating}
	default:
		return pick(r, []condDesc{{true, metav1.ConditionUnknown, "Whatever"}, {true, metav1.ConditionTrue, "Odd"}, {true, metav1.ConditionFalse, "Odd"}})
	}
}

// an arbitrary pool as some earlier controller version / user might have left it
func genConfigPool(r *rng, name string, malformed bool) poolDesc {
	d := poolDesc{name: name, created: int64(r.intn(6)), cidr: genCIDR(r), disabled: r.chance(15), cond: genCond(r), fin: r.chance(55), ofin: r.chance(12), extra: r.chance(10)}
	if malformed && r.chance(25) {
		d.cidr = pick(r, badCIDRs)
	}
	if r.chance(22) {
		d.deleting = true
		if !d.fin && !d.ofin { // a terminating object exists only while it has a finalizer
			if r.chance(80) {
				d.fin = true
			} else {
				d.ofin = true
			}
		}
	}
	return d
}

func (w *world) names() []string {
	var ns []string
	for _, p := range w.pools() {
		ns = append(ns, p.Name)
	}
	return ns
}

func (w *world) cidrs() []string {
	var cs []string
	for _, p := range w.pools() {
		cs = append(cs, p.Spec.CIDR)
	}
	return cs
}

func genOps(r *rng, w *world, clock *int64, malformed bool, maxPools int) []opDesc {
	var ops []opDesc
	n := r.intn(4)
	if len(w.names()) == 0 {
		n = 1 + r.intn(3)
	}
	for i := 0; i < n; i++ {
		existing := w.names()
		k := r.intn(20)
		var o opDesc
		switch {
		case k < 7 || len(existing) == 0:
			if len(existing) >= maxPools {
				continue
			}
			var free []string
			for _, nm := range names {
				if !slices.Contains(existing, nm) {
					free = append(free, nm)
				}
			}
			if r.chance(60) {
				*clock++
			}
			t := *clock
			if r.chance(10) {
				t = int64(r.intn(int(*clock) + 1))
			}
			d := poolDesc{name: pick(r, free), created: t, cidr: genCIDR(r), disabled: r.chance(12), ofin: r.chance(10)}
			if r.chance(30) && len(existing) > 0 { // aim at an existing pool: same CIDR, a half of it, or its parent
				if v6, a, l, ok := parseRaw(pick(r, w.cidrs())); ok && !v6 {
					l2 := l + r.intn(3) - 1
					if l2 < 8 {
						l2 = l
					}
					if l2 > 32 {
						l2 = 32
					}
					aa := uint32(a.Uint64()) & (^uint32(0) << uint(32-l2))
					d.cidr = v4Text(aa, l2)
				}
			}
			if malformed && r.chance(20) {
				d.cidr = pick(r, badCIDRs)
			}
			o = opDesc{kind: "create", pool: d}
		case k < 9:
			o = opDesc{kind: "disable", name: pick(r, existing)}
		case k < 11:
			o = opDesc{kind: "enable", name: pick(r, existing)}
		case k < 14:
			o = opDesc{kind: "delete", name: pick(r, existing)}
		case k < 15:
			o = opDesc{kind: "dropother", name: pick(r, existing)}
		case k < 18:
			o = opDesc{kind: "blockadd", cidr: genBlock(r, w.cidrs(), malformed)}
			if slices.ContainsFunc(w.blocks, func(s string) bool { return rawTerm(s) == rawTerm(o.cidr) }) {
				continue
			}
		default:
			if len(w.blocks) == 0 {
				continue
			}
			o = opDesc{kind: "blockdel", cidr: pick(r, w.blocks)}
		}
		w.apply(o)
		ops = append(ops, o)
	}
	return ops
}

// ---------------------------------------------------------------- scripted shapes (each followed by a random tail)

func mk(name string, t int64, cidr string) opDesc {
	return opDesc{kind: "create", pool: poolDesc{name: name, created: t, cidr: cidr}}
}
func nm(kind, name string) opDesc  { return opDesc{kind: kind, name: name} }
func blk(kind, cidr string) opDesc { return opDesc{kind: kind, cidr: cidr} }

var scenarios = [][][]opDesc{
	// an allocatable pool with a block is deleted, then disabled, while an overlapping pool waits
	{{mk("a", 1, "10.0.0.0/24")}, {blk("blockadd", "10.0.0.64/26"), mk("b", 2, "10.0.0.0/25")}, {nm("delete", "a")}, {nm("disable", "a")}, {}, {blk("blockdel", "10.0.0.64/26")}, {}},
	// same, disabled first then deleted (the finalizer is gone by then, the pool disappears at once)
	{{mk("a", 1, "10.0.0.0/24")}, {blk("blockadd", "10.0.0.64/26"), mk("b", 2, "10.0.0.0/25")}, {nm("disable", "a")}, {nm("delete", "a")}, {}},
	// delete and disable arrive between two reconciles
	{{mk("a", 1, "10.0.0.0/24"), blk("blockadd", "10.0.0.0/26")}, {mk("b", 2, "10.0.0.128/25"), nm("delete", "a"), nm("disable", "a")}, {}, {blk("blockdel", "10.0.0.0/26")}, {}},
	// terminating pool masks until its blocks are gone
	{{mk("a", 1, "10.0.0.0/24"), mk("b", 2, "10.0.0.0/23")}, {blk("blockadd", "10.0.0.0/26")}, {nm("delete", "a")}, {}, {blk("blockdel", "10.0.0.0/26")}, {}, {}},
	// disabling the incumbent hands over; re-enabling does not take it back
	{{mk("a", 1, "10.0.0.0/24"), mk("b", 2, "10.0.0.0/25")}, {nm("disable", "a")}, {nm("enable", "a")}, {}},
	// equal creation times: order by name
	{{mk("p10", 3, "10.0.0.0/24"), mk("p2", 3, "10.0.0.0/24"), mk("p1", 3, "10.0.0.0/25")}, {}, {nm("delete", "p1")}, {}},
	// a newer, larger pool never displaces; an older one created later (clock skew) does not either
	{{mk("a", 5, "10.0.1.0/24")}, {mk("b", 1, "10.0.0.0/22")}, {mk("c", 0, "10.0.1.0/25")}, {}},
	// three-way: a covers b and c, which are disjoint
	{{mk("b", 2, "10.0.0.0/25"), mk("c", 2, "10.0.0.128/25")}, {mk("a", 1, "10.0.0.0/24")}, {nm("delete", "b")}, {nm("delete", "c")}, {}},
	// foreign finalizer keeps a never-allocatable terminating pool around
	{{mk("a", 1, "10.0.0.0/24"), opDesc{kind: "create", pool: poolDesc{name: "b", created: 2, cidr: "10.0.0.0/25", ofin: true}}}, {nm("delete", "b")}, {mk("c", 3, "10.0.0.0/26")}, {nm("delete", "a")}, {}, {nm("dropother", "b")}, {}},
	// [9] the status write for a freshly terminating pool fails (409): it must keep masking in that very pass
	{{mk("a", 1, "10.0.0.0/16"), blk("blockadd", "10.0.0.0/26")}, {mk("b", 2, "10.0.0.0/24")}, {nm("delete", "a")}, {}, {}, {blk("blockdel", "10.0.0.0/26")}, {}, {}},
	// [10] finalizer / status writes of new pools fail, then clean passes
	{{mk("a", 1, "10.0.0.0/24")}, {mk("b", 2, "10.0.0.0/25")}, {}, {nm("delete", "a")}, {}, {}},
	// [11] the incumbent is disabled but the status write fails; it is re-enabled before the retry
	{{mk("a", 1, "10.0.0.0/24"), mk("b", 2, "10.0.0.0/25")}, {nm("disable", "a")}, {nm("enable", "a")}, {}, {}},
	// ipv6 and ipv4 do not interact
	{{mk("a", 1, "fd00::/48"), mk("b", 2, "fd00::/64"), mk("c", 2, "0.0.0.0/0")}, {blk("blockadd", "fd00::/122")}, {nm("delete", "a")}, {}, {blk("blockdel", "fd00::/122")}, {}},
}

// injected write failures of the scripted shapes: scenario index -> step index -> (status failures, finalizer-write failures)
var scenarioFaults = map[int]map[int][2][]string{
	9:  {2: {{"a"}, nil}},
	10: {0: {nil, {"a"}}, 1: {{"b"}, {"b"}}, 3: {{"a"}, nil}},
	11: {1: {{"a"}, nil}},
}

// ---------------------------------------------------------------- running one case

type line struct {
	Coq    string         `json:"coq"`
	NT     bool           `json:"nt"`
	Key    string         `json:"key"`
	Sample map[string]any `json:"sample,omitempty"`
	Tags   []string       `json:"tags"`
}

type caseRun struct {
	w       *world
	rounds  []string
	sample  []any
	key     []string
	tags    map[string]bool
	overlap bool
}

func (c *caseRun) reconcileRound(ops []opDesc, sf, uf []string) {
	w := c.w
	w.gc()
	w.sync()
	pre := w.pools()
	preTerm, preObs := poolsTerm(pre)
	w.ipam.released = nil
	w.sfail, w.ufail = map[string]bool{}, map[string]bool{}
	var sfT, ufT []string
	for _, n := range sf {
		w.sfail[n] = true
		sfT = append(sfT, bytesTerm(n))
	}
	for _, n := range uf {
		w.ufail[n] = true
		ufT = append(ufT, bytesTerm(n))
	}
	err := w.ctrl.VerifReconcile()
	w.sfail, w.ufail = nil, nil
	post := w.pools()
	postTerm, postObs := poolsTerm(post)
	var rel []string
	for _, n := range w.ipam.released {
		rel = append(rel, kcidrTerm(n))
	}
	var opTerms, opTexts []string
	for _, o := range ops {
		opTerms = append(opTerms, opTerm(o))
		opTexts = append(opTexts, opText(o))
	}
	c.rounds = append(c.rounds, fmt.Sprintf("(mkRound [%s] [%s] [%s] %s %s %s [%s] %v)", strings.Join(opTerms, "; "), strings.Join(sfT, "; "), strings.Join(ufT, "; "),
		preTerm, blocksTerm(w.blocks), postTerm, strings.Join(rel, "; "), err != nil))
	c.key = append(c.key, strings.Join(opTexts, ",")+"|R"+strings.Join(sf, ",")+"/"+strings.Join(uf, ","))
	if len(sf) > 0 {
		c.tags["fault:status-write"] = true
	}
	if len(uf) > 0 {
		c.tags["fault:finalizer-write"] = true
	}
	for _, a := range pre {
		if a.DeletionTimestamp != nil && slices.Contains(sf, a.Name) {
			c.tags["fault:status-write-on-terminating"] = true
		}
	}
	// tags + sample
	var after []string
	postBy := map[string]obs{}
	for _, o := range postObs {
		postBy[o.name] = o
		st := "-"
		if o.hasCond {
			st = o.status + "/" + o.reason
		}
		after = append(after, fmt.Sprintf("%s %s %s fin=%v other=%v deleting=%v disabled=%v", o.name, o.cidr, st, o.fin, o.ofin, o.deleting, o.disabled))
	}
	c.sample = append(c.sample, map[string]any{"ops": opTexts, "blocks": slices.Clone(w.blocks), "after_reconcile": after, "error": err != nil,
		"status_writes_failing": sf, "finalizer_writes_failing": uf})
	for i, a := range preObs {
		if a.deleting {
			c.tags["has:terminating"] = true
		}
		if a.disabled {
			c.tags["has:disabled"] = true
		}
		if a.deleting && a.disabled {
			c.tags["has:disabled+terminating"] = true
		}
		if _, _, _, ok := parseRaw(a.cidr); !ok {
			c.tags["has:unparseable-cidr"] = true
		}
		if strings.Contains(a.cidr, ":") {
			c.tags["has:ipv6"] = true
		}
		for j, b := range preObs {
			if i == j || !overlapText(a.cidr, b.cidr) {
				continue
			}
			c.overlap = true
			// the shape of the known finding: a disabled AND terminating pool that is still there after the reconcile
			// while an overlapping pool that was not allocatable before is allocatable after
			pa, pb := postBy[a.name], postBy[b.name]
			if a.deleting && a.disabled && (pa.fin || pa.ofin) && pb.hasCond && pb.status == "STrue" && !(b.hasCond && b.status == "STrue" && !b.deleting) {
				c.tags["disabled-terminating-unmasked"] = true
			}
			if a.deleting && !a.disabled {
				c.tags["overlap:terminating"] = true
			}
		}
	}
	if err != nil {
		c.tags["reconcile-error"] = true
	}
	if len(w.ipam.released) > 0 {
		c.tags["released-affinities"] = true
	}
	for _, o := range postObs {
		if o.deleting && !o.fin && !o.ofin {
			c.tags["deletion-completed"] = true
		}
		if o.deleting && o.fin {
			c.tags["deletion-held"] = true
		}
	}
}

func runCase(r *rng, tf bool, stream string, idx int) line {
	c := &caseRun{w: newWorld(), tags: map[string]bool{"stream:" + stream: true}}
	w := c.w
	malformed := stream == "malformed"
	var initPools []*v3.IPPool
	clock := int64(1)
	maxPools := 3 + r.intn(5)
	switch stream {
	case "config", "malformed":
		// arbitrary configuration, then a few quiet or busy rounds
		n := 2 + r.intn(6)
		used := map[string]bool{}
		for i := 0; i < n; i++ {
			nmx := pick(r, names)
			if used[nmx] {
				continue
			}
			used[nmx] = true
			p := buildPool(genConfigPool(r, nmx, malformed))
			_, err := w.cli.ProjectcalicoV3().IPPools().Create(context.Background(), p, metav1.CreateOptions{})
			must(err)
		}
		initPools = w.pools()
		nb := r.intn(4)
		for i := 0; i < nb; i++ {
			b := genBlock(r, w.cidrs(), malformed)
			if !slices.ContainsFunc(w.blocks, func(s string) bool { return rawTerm(s) == rawTerm(b) }) {
				w.blocks = append(w.blocks, b)
			}
		}
		clock = 6
	}
	initTerm, _ := poolsTerm(initPools)
	initBlocks := blocksTerm(w.blocks)
	c.key = append(c.key, initTerm, initBlocks)

	switch stream {
	case "config", "malformed":
		var sf0, uf0 []string
		if r.chance(35) { // arbitrary configuration AND failing writes in the first pass
			for _, p := range w.pools() {
				if r.chance(35) {
					sf0 = append(sf0, p.Name)
				}
				if r.chance(20) {
					uf0 = append(uf0, p.Name)
				}
			}
		}
		c.reconcileRound(nil, sf0, uf0)
		nr := r.intn(3)
		for i := 0; i < nr; i++ {
			var ops []opDesc
			if r.chance(60) {
				ops = genOps(r, w, &clock, malformed, maxPools+2)
			}
			c.reconcileRound(ops, nil, nil)
		}
	case "history":
		nr := 3 + r.intn(4)
		for i := 0; i < nr; i++ {
			c.reconcileRound(genOps(r, w, &clock, false, maxPools), nil, nil)
		}
	case "faults":
		// histories in which some passes have failing status / finalizer writes, with clean passes (retries) in between
		nr := 4 + r.intn(4)
		for i := 0; i < nr; i++ {
			var ops []opDesc
			if i == 0 || r.chance(65) {
				ops = genOps(r, w, &clock, false, maxPools)
			}
			var sf, uf []string
			if r.chance(55) {
				for _, p := range w.pools() {
					ps, pu := 25, 15
					if p.DeletionTimestamp != nil {
						ps = 60
					}
					if r.chance(ps) {
						sf = append(sf, p.Name)
					}
					if r.chance(pu) {
						uf = append(uf, p.Name)
					}
				}
			}
			c.reconcileRound(ops, sf, uf)
		}
	case "scenario":
		sc := scenarios[idx%len(scenarios)]
		c.tags[fmt.Sprintf("scenario:%d", idx%len(scenarios))] = true
		for si, ops := range sc {
			for _, o := range ops {
				w.apply(o)
			}
			f := scenarioFaults[idx%len(scenarios)][si]
			c.reconcileRound(ops, f[0], f[1])
		}
		clock = 10
		nr := r.intn(3)
		for i := 0; i < nr; i++ {
			c.reconcileRound(genOps(r, w, &clock, false, 6), nil, nil)
		}
	}
	var tags []string
	for t := range c.tags {
		tags = append(tags, t)
	}
	sort.Strings(tags)
	coq := fmt.Sprintf("(XRounds (mkCase %v (mkState %s %s) [%s]))", tf, initTerm, initBlocks, strings.Join(c.rounds, "; "))
	return line{Coq: coq, NT: c.overlap, Key: strings.Join(c.key, "#"), Sample: map[string]any{"stream": stream, "rounds": c.sample}, Tags: tags}
}

// ---------------------------------------------------------------- the "conditions" stream: setConditionOnPool / hasCondition on lists

var condTypes = []string{v3.IPPoolConditionAllocatable, "SomethingElse", "Third"}
var condReasons = []string{v3.IPPoolReasonOK, v3.IPPoolReasonDisabled, v3.IPPoolReasonTerminating, v3.IPPoolReasonCIDROverlap, "Odd"}
var condReasonTerms = []string{"ROK", "RDisabled", "RTerminating", "ROverlap", "ROther"}
var condStatuses = []metav1.ConditionStatus{metav1.ConditionTrue, metav1.ConditionFalse, metav1.ConditionUnknown}
var condStatusTerms = []string{"STrue", "SFalse", "SUnknown"}
var condMsgs = []string{"", "m1", "m2"}

func lcondTerm(c metav1.Condition) string {
	return fmt.Sprintf("(mkLC %d %s %s %d)", slices.Index(condTypes, c.Type), condStatusTerms[slices.Index(condStatuses, c.Status)],
		condReasonTerms[slices.Index(condReasons, c.Reason)], slices.Index(condMsgs, c.Message))
}

func lcondsTerm(cs []metav1.Condition) string {
	ts := make([]string, len(cs))
	for i, c := range cs {
		ts[i] = lcondTerm(c)
	}
	return "[" + strings.Join(ts, "; ") + "]"
}

func genLCond(r *rng, ty string) metav1.Condition {
	return metav1.Condition{Type: ty, Status: pick(r, condStatuses), Reason: pick(r, condReasons), Message: pick(r, condMsgs)}
}

func runCondCase(r *rng) line {
	p := &v3.IPPool{ObjectMeta: metav1.ObjectMeta{Name: "c"}}
	tags := []string{"stream:conditions"}
	n := r.intn(6)
	dup := r.chance(40) // the API server keeps one condition per type; the helpers are also run on lists that break the rule
	var before []metav1.Condition
	used := map[string]bool{}
	for i := 0; i < n; i++ {
		ty := pick(r, condTypes)
		if used[ty] && !dup {
			continue
		}
		used[ty] = true
		before = append(before, genLCond(r, ty))
	}
	switch {
	case len(before) == 0 && r.chance(50):
		tags = append(tags, "cond:nil-status")
	default:
		p.Status = &v3.IPPoolStatus{Conditions: slices.Clone(before)}
		if len(before) == 0 {
			tags = append(tags, "cond:empty-list")
		}
	}
	nc := genLCond(r, pick(r, []string{v3.IPPoolConditionAllocatable, v3.IPPoolConditionAllocatable, "SomethingElse"}))
	if len(before) > 0 && r.chance(65) { // aim at "already as wanted" / "differs in one field"
		for _, b := range before {
			if b.Type == nc.Type {
				nc = b
				nc.LastTransitionTime = metav1.Time{}
				switch r.intn(7) {
				case 0:
					nc.Message = pick(r, condMsgs)
				case 1:
					nc.Reason = pick(r, condReasons)
				case 2:
					nc.Status = pick(r, condStatuses)
				}
				break
			}
		}
	}
	hasT := ippool.VerifHasCondition(p, v3.IPPoolConditionAllocatable, metav1.ConditionTrue)
	hasF := ippool.VerifHasCondition(p, v3.IPPoolConditionAllocatable, metav1.ConditionFalse)
	changed := ippool.VerifSetCondition(p, nc)
	var after []metav1.Condition
	if p.Status != nil {
		after = p.Status.Conditions
	}
	cnt := 0
	for _, b := range before {
		if b.Type == nc.Type {
			cnt++
		}
	}
	tags = append(tags, fmt.Sprintf("cond:same-type-before=%d", min(cnt, 2)), fmt.Sprintf("cond:changed=%v", changed))
	coq := fmt.Sprintf("(XCond (mkCCase %s %s %s %v %v %v))", lcondsTerm(before), lcondTerm(nc), lcondsTerm(after), changed, hasT, hasF)
	return line{Coq: coq, NT: len(before) > 0, Key: coq, Tags: tags,
		Sample: map[string]any{"stream": "conditions", "before": lcondsTerm(before), "set": lcondTerm(nc), "after": lcondsTerm(after), "changed": changed}}
}

// which order of the Spec.Disabled / DeletionTimestamp tests does the tree under test implement?
func probeTerminatingFirst() bool {
	w := newWorld()
	p := buildPool(poolDesc{name: "probe", created: 1, cidr: "10.9.0.0/24", disabled: true, deleting: true, fin: true})
	_, err := w.cli.ProjectcalicoV3().IPPools().Create(context.Background(), p, metav1.CreateOptions{})
	must(err)
	w.blocks = []string{"10.9.0.0/26"}
	w.sync()
	_ = w.ctrl.VerifReconcile()
	o := observe(w.get("probe"))
	return o.hasCond && o.reason == "RTerminating"
}

func main() {
	n := flag.Int("n", 100, "cases")
	seed := flag.Uint64("seed", 1, "seed")
	flag.Parse()
	logrus.SetOutput(io.Discard)
	logrus.SetLevel(logrus.PanicLevel)
	r := &rng{s: *seed}
	tf := probeTerminatingFirst()
	enc := json.NewEncoder(os.Stdout)
	for i := 0; i < *n; i++ {
		var stream string
		switch k := i % 10; {
		case k < 2:
			stream = "scenario"
		case k < 5:
			stream = "config"
		case k < 7:
			stream = "history"
		case k < 9:
			stream = "faults"
		default:
			stream = "malformed"
		}
		_ = enc.Encode(runCase(r, tf, stream, i/10*2+i%10))
		if i%8 == 7 {
			_ = enc.Encode(runCondCase(r))
		}
		if i%16 == 3 {
			failed, rq := r.chance(70), r.intn(8)
			adds, forgets := ippool.VerifHandleErr(failed, rq)
			coq := fmt.Sprintf("(XErr %v %d%%nat %d%%nat %d%%nat)", failed, rq, adds, forgets)
			_ = enc.Encode(line{Coq: coq, NT: failed, Key: coq, Tags: []string{"stream:handle-err", fmt.Sprintf("handle-err:failed=%v,budget-left=%v", failed, rq < 5)},
				Sample: map[string]any{"stream": "handle-err", "failed": failed, "requeues": rq, "rate_limited_adds": adds, "forgets": forgets}})
		}
	}
	_ = enc.Encode(map[string]any{"stats": map[string]any{"terminating_tested_before_disabled": tf}})
}
